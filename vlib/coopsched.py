"""Controlled scheduler for the real simulator threads.

Real OS threads, but exactly one runs at a time (per-thread semaphore baton).
Seams are installed from outside by rebinding names inside the imported
``pydsol.core.simulator`` module (by identity of the bound object):

  threading (module)  -> shim with cooperative Event / Lock / RLock / Condition
  time (module)       -> virtual clock + cooperative sleep
  sleep / time.time   -> cooperative sleep / virtual clock
  Thread.start        -> registers the child with the scheduler first

Two modes:
  * sequential (trace=False): a thread runs until it blocks or sleeps;
  * exploration (trace=True): every source line executed in a watched file is a
    scheduling point; `explore()` enumerates all schedules with at most `bound`
    preemptions by depth-first re-execution.

Polling loops are finite: a thread that slept is disabled until another thread
took a step; when only sleepers remain virtual time jumps by one second so the
library's own one-second time-outs fire.
"""
import sys
import threading
import time as _rt

from vlib.common import HarnessError

_real_sleep = _rt.sleep
_real_time = _rt.time
_real_start = threading.Thread.start
_real_Event = threading.Event
_real_Lock = threading.Lock
_real_RLock = threading.RLock
_real_Condition = threading.Condition
_real_Semaphore = threading.Semaphore


class Deadlock(Exception):
    pass


class Livelock(Exception):
    pass


class Kill(BaseException):
    """injected into parked threads at the end of an execution"""


class TS:
    __slots__ = ("tid", "thread", "sem", "status", "snap", "blocked_on",
                 "deadline", "steps", "timed_out")

    def __init__(self, tid, thread):
        self.tid = tid
        self.thread = thread
        self.sem = _real_Semaphore(0)
        self.status = "run"   # run | blocked | sleep | quiesce | done
        self.snap = 0
        self.blocked_on = None
        self.deadline = None
        self.steps = 0
        self.timed_out = False


class Sched:
    cur = None   # the active scheduler (one per execution)

    def __init__(self, prefix=(), watch=(), trace=False, max_points=400000,
                 max_forced=50):
        self.prefix = list(prefix)
        self.watch = tuple(watch)
        self.trace = trace
        self.threads = []
        self.vtime = 1000.0
        self.progress = 0
        self.points = []     # (n_enabled, chosen, running_enabled, tid, desc)
        self.npoints = 0
        self.max_points = max_points
        self.max_forced = max_forced
        self.killed = False
        self.timeouts_forced = 0
        self.failure = None          # Deadlock / Livelock description
        main = TS(0, threading.current_thread())
        self.threads.append(main)
        self.current = main
        self.by_ident = {threading.get_ident(): main}

    # ---- bookkeeping
    def new_thread(self, thread):
        ts = TS(len(self.threads), thread)
        self.threads.append(ts)
        return ts

    def _others_quiet(self, me):
        for t in self.threads:
            if t is me:
                continue
            if t.status == "done":
                continue
            if t.status == "blocked" and t.deadline is None:
                continue
            return False
        return True

    def enabled(self, ts):
        st = ts.status
        if st == "run":
            return True
        if st == "sleep":
            return self.progress > ts.snap
        if st == "quiesce":
            return self._others_quiet(ts)
        return False

    def wake(self, obj):
        """wake every thread blocked on obj"""
        for t in self.threads:
            if t.status == "blocked" and t.blocked_on is obj:
                t.status = "run"
                t.blocked_on = None
                t.deadline = None

    def wake_one(self, obj):
        for t in self.threads:
            if t.status == "blocked" and t.blocked_on is obj:
                t.status = "run"
                t.blocked_on = None
                t.deadline = None
                return True
        return False

    # ---- the scheduling point
    def switch(self, desc=None):
        """called by the running thread (it holds the baton)"""
        me = self.current
        if self.killed:
            raise Kill()
        self.npoints += 1
        if self.npoints > self.max_points:
            self.failure = ("livelock", "more than %d scheduling points"
                            % self.max_points)
            self.killed = True
            raise Kill()
        en = [t for t in self.threads if self.enabled(t)]
        if not en:
            timed = [t for t in self.threads
                     if t.status == "sleep"
                     or (t.status == "blocked" and t.deadline is not None)]
            if timed:
                # nobody can move: let virtual time pass so polling loops and
                # timed waits hit their time-outs
                self.timeouts_forced += 1
                if self.timeouts_forced > self.max_forced:
                    self.failure = ("livelock", "more than %d forced time-outs"
                                    % self.max_forced)
                    self.killed = True
                    raise Kill()
                self.vtime += 1.0
                self.progress += 1
                for t in timed:
                    if t.status == "blocked" and t.deadline <= self.vtime:
                        t.status = "run"
                        t.blocked_on = None
                        t.deadline = None
                        t.timed_out = True
                en = [t for t in self.threads if self.enabled(t)]
            if not en:
                if all(t.status == "done" for t in self.threads):
                    return
                if me.status == "done":
                    return
                self.failure = ("deadlock", [(t.tid, t.status)
                                             for t in self.threads])
                self.killed = True
                raise Kill()
        # canonical order: running thread first if still enabled, then by id
        cur_en = me in en
        if cur_en:
            en = [me] + [t for t in en if t is not me]
        if len(en) > 1:
            i = len(self.points)
            if i < len(self.prefix):
                c = self.prefix[i]
                if c >= len(en):
                    self.killed = True
                    self.failure = ("divergence", "choice %d of %d at point %d"
                                    % (c, len(en), i))
                    raise Kill()
            else:
                c = 0
            self.points.append((len(en), c, cur_en, me.tid, desc))
        else:
            c = 0
        nxt = en[c]
        if nxt.status in ("sleep", "quiesce"):
            nxt.status = "run"
        if nxt is not me:
            self.current = nxt
            nxt.sem.release()
            if me.status != "done":
                me.sem.acquire()
                if self.killed:
                    raise Kill()
        me.steps += 1
        self.progress += 1

    def kill_all(self):
        self.killed = True
        for t in self.threads:
            if t.status != "done" and t is not self.current:
                t.sem.release()

    # ---- tracing
    def gtrace(self, frame, event, arg):
        if frame.f_code.co_filename.endswith(self.watch):
            return self.ltrace
        return None

    def ltrace(self, frame, event, arg):
        if event == "line" and Sched.cur is self and not self.killed:
            self.switch((frame.f_code.co_name, frame.f_lineno))
        return self.ltrace

    # ---- harness helpers (called by the driver thread)
    def wait_quiescent(self):
        """park the driver until every other thread is blocked (without a
        time-out) or finished; decided by the scheduler, never by a timer"""
        me = self.current
        if self._others_quiet(me):
            return
        me.status = "quiesce"
        self.switch(("quiesce", 0))
        me.status = "run"

    def yield_point(self, desc="yield"):
        """explicit scheduling point for harness code"""
        self.switch((desc, 0))


# ------------------------------------------------------------- primitives
class _Cond:
    """stands in for Event._cond: the library reads len(_cond._waiters)"""

    def __init__(self):
        self._waiters = []


def _block(s, obj, timeout, desc):
    me = s.current
    me.status = "blocked"
    me.blocked_on = obj
    me.deadline = None if timeout is None else s.vtime + max(0.0, timeout)
    me.timed_out = False
    s.switch(desc)
    to = me.timed_out
    me.timed_out = False
    return not to


class CoopEvent:
    def __init__(self):
        self._flag = False
        self._cond = _Cond()

    def is_set(self):
        return self._flag

    isSet = is_set

    def set(self):
        self._flag = True
        s = Sched.cur
        if s is not None:
            s.wake(self)

    def clear(self):
        self._flag = False

    def wait(self, timeout=None):
        s = Sched.cur
        if self._flag:
            return True
        if s is None:
            raise HarnessError("CoopEvent.wait outside a scheduled execution")
        tok = object()
        self._cond._waiters.append(tok)
        try:
            _block(s, self, timeout, ("Event.wait", 0))
        finally:
            self._cond._waiters.remove(tok)
        return self._flag


class CoopLock:
    def __init__(self):
        self._owner = None
        self._count = 0
        self._reentrant = False

    def acquire(self, blocking=True, timeout=-1):
        s = Sched.cur
        me = s.current if s is not None else None
        while True:
            if self._owner is None:
                self._owner = me
                self._count = 1
                return True
            if self._reentrant and self._owner is me:
                self._count += 1
                return True
            if not blocking:
                return False
            if s is None:
                raise HarnessError("CoopLock contention outside a schedule")
            ok = _block(s, self, None if timeout is None or timeout < 0
                        else timeout, ("Lock.acquire", 0))
            if not ok:
                return False

    def release(self):
        if self._owner is None:
            raise RuntimeError("release unlocked lock")
        self._count -= 1
        if self._count == 0:
            self._owner = None
            s = Sched.cur
            if s is not None:
                s.wake(self)

    def locked(self):
        return self._owner is not None

    def __enter__(self):
        self.acquire()
        return self

    def __exit__(self, *a):
        self.release()

    # used by CoopCondition
    def _release_save(self):
        st = (self._owner, self._count)
        self._owner = None
        self._count = 0
        s = Sched.cur
        if s is not None:
            s.wake(self)
        return st

    def _acquire_restore(self, st):
        s = Sched.cur
        while self._owner is not None:
            _block(s, self, None, ("Lock.reacquire", 0))
        self._owner, self._count = st


class CoopRLock(CoopLock):
    def __init__(self):
        super().__init__()
        self._reentrant = True


class CoopCondition:
    def __init__(self, lock=None):
        self._lock = lock if lock is not None else CoopRLock()
        self._waiters = []
        self.acquire = self._lock.acquire
        self.release = self._lock.release

    def __enter__(self):
        self._lock.acquire()
        return self

    def __exit__(self, *a):
        self._lock.release()

    def wait(self, timeout=None):
        s = Sched.cur
        tok = object()
        self._waiters.append(tok)
        st = self._lock._release_save()
        try:
            ok = _block(s, tok, timeout, ("Condition.wait", 0))
        finally:
            if tok in self._waiters:
                self._waiters.remove(tok)
            self._lock._acquire_restore(st)
        return ok

    def wait_for(self, predicate, timeout=None):
        r = predicate()
        while not r:
            if not self.wait(timeout):
                return predicate()
            r = predicate()
        return r

    def notify(self, n=1):
        s = Sched.cur
        for tok in list(self._waiters[:n]):
            self._waiters.remove(tok)
            if s is not None:
                s.wake(tok)

    def notify_all(self):
        self.notify(len(self._waiters))

    notifyAll = notify_all


class CoopSemaphore:
    def __init__(self, value=1):
        self._value = value

    def acquire(self, blocking=True, timeout=None):
        s = Sched.cur
        while self._value <= 0:
            if not blocking:
                return False
            if not _block(s, self, timeout, ("Semaphore.acquire", 0)):
                return False
        self._value -= 1
        return True

    def release(self, n=1):
        self._value += n
        s = Sched.cur
        if s is not None:
            s.wake(self)

    def __enter__(self):
        self.acquire()
        return self

    def __exit__(self, *a):
        self.release()


def coop_sleep(dt=0.0):
    s = Sched.cur
    if s is None:
        return _real_sleep(dt)
    me = s.current
    s.vtime += max(0.0, dt)
    me.status = "sleep"
    me.snap = s.progress
    s.switch(("sleep", 0))
    me.status = "run"


def coop_time():
    s = Sched.cur
    return s.vtime if s is not None else _real_time()


class _TimeShim:
    def __init__(self, real):
        self._real = real

    def time(self):
        return coop_time()

    def monotonic(self):
        return coop_time()

    def perf_counter(self):
        return coop_time()

    def sleep(self, dt):
        coop_sleep(dt)

    def __getattr__(self, name):
        return getattr(self._real, name)


class _ThreadingShim:
    Event = CoopEvent
    Lock = CoopLock
    RLock = CoopRLock
    Condition = CoopCondition
    Semaphore = CoopSemaphore
    BoundedSemaphore = CoopSemaphore

    def __getattr__(self, name):
        return getattr(threading, name)


def _patched_start(self):
    s = Sched.cur
    if s is None:
        return _real_start(self)
    ts = s.new_thread(self)
    orig_run = self.run
    self.daemon = True

    def run():
        s.by_ident[threading.get_ident()] = ts
        ts.sem.acquire()
        try:
            if s.killed:
                return
            if s.trace:
                sys.settrace(s.gtrace)
            orig_run()
        except Kill:
            pass
        finally:
            sys.settrace(None)
            ts.status = "done"
            if not s.killed:
                try:
                    s.switch(("exit", 0))
                except Kill:
                    pass
    self.run = run
    _real_start(self)


_installed = []


def install(modules=("pydsol.core.simulator",)):
    """rebind threading / time seams inside the given library modules, by
    identity of the objects they have bound"""
    import importlib
    tshim = _ThreadingShim()
    for mname in modules:
        if mname in _installed:
            continue
        mod = importlib.import_module(mname)
        tm = _TimeShim(_rt)
        for name, val in list(vars(mod).items()):
            if val is _rt:
                setattr(mod, name, tm)
            elif val is _real_sleep:
                setattr(mod, name, coop_sleep)
            elif val is _real_time or val is _rt.monotonic \
                    or val is _rt.perf_counter:
                setattr(mod, name, coop_time)
            elif val is threading:
                setattr(mod, name, tshim)
            elif val is _real_Event:
                setattr(mod, name, CoopEvent)
            elif val is _real_Lock:
                setattr(mod, name, CoopLock)
            elif val is _real_RLock:
                setattr(mod, name, CoopRLock)
            elif val is _real_Condition:
                setattr(mod, name, CoopCondition)
            elif val is _real_Semaphore:
                setattr(mod, name, CoopSemaphore)
        _installed.append(mname)
    threading.Thread.start = _patched_start


# ------------------------------------------------------------- executions
class Result:
    __slots__ = ("sched", "value", "failure", "points", "nthreads")


def run_one(body, prefix=(), trace=False,
            watch=("pydsol/core/simulator.py",), max_points=400000):
    """run body(sched) once as the driver thread under a fresh scheduler"""
    if Sched.cur is not None:
        raise HarnessError("nested scheduled execution")
    s = Sched(prefix, watch, trace, max_points=max_points)
    Sched.cur = s
    r = Result()
    r.value = None
    try:
        if trace:
            sys.settrace(s.gtrace)
        r.value = body(s)
    except Kill:
        pass
    finally:
        sys.settrace(None)
        s.threads[0].status = "done"
        s.kill_all()
        for t in s.threads[1:]:
            t.thread.join(5)
            if t.thread.is_alive():
                Sched.cur = None
                raise HarnessError("thread %d did not unwind" % t.tid)
        Sched.cur = None
    r.sched = s
    r.failure = s.failure
    r.points = s.points
    r.nthreads = len(s.threads)
    if s.failure and s.failure[0] == "divergence":
        raise HarnessError("replay divergence: %s" % (s.failure[1],))
    return r


def successors(points, prefix_len, bound):
    """alternative prefixes of one execution within the preemption bound"""
    out = []
    pre = 0
    choices = [p[1] for p in points]
    for i, (nen, c, cur_en, tid, desc) in enumerate(points):
        if i >= prefix_len:
            cost = pre + (1 if cur_en else 0)
            if cost <= bound:
                for alt in range(1, nen):
                    out.append(tuple(choices[:i]) + (alt,))
        if c != 0 and cur_en:
            pre += 1
    return out


def preemptions(points):
    return sum(1 for p in points if p[1] != 0 and p[2])


def explore_subtree(body, root, bound, budget, judge, trace=True,
                    watch=("pydsol/core/simulator.py",)):
    """depth-first exploration below `root` (inclusive), at most `budget`
    executions; returns (n, outcomes, violations, leftover_prefixes,
    maxpoints)"""
    stack = [tuple(root)]
    n = 0
    outcomes = {}
    viols = []
    maxpts = 0
    while stack and n < budget:
        prefix = stack.pop()
        r = run_one(body, prefix, trace=trace, watch=watch)
        n += 1
        maxpts = max(maxpts, len(r.points))
        key, bad = judge(r)
        outcomes[key] = outcomes.get(key, 0) + 1
        if bad:
            viols.append((prefix, key, bad))
        stack.extend(successors(r.points, len(prefix), bound))
    return n, outcomes, viols, stack, maxpts
