"""Harness for the simulator lifecycle (C04): a 3-event model whose handlers
and listeners can issue commands from the run thread, a listener recording the
complete notification stream, command issue + scheduler-decided quiescence,
and the stream monitor."""
from vlib import coopsched
from vlib.coopsched import coop_sleep

END = 4.0
WARMUP = 1.5
TIMES = (1.0, 2.0, 3.0)
MID = 2.5


def event_types():
    from pydsol.core.interfaces import SimulatorInterface as S
    from pydsol.core.interfaces import ReplicationInterface as R
    return {"STARTING": S.STARTING_EVENT, "START": S.START_EVENT,
            "STOPPING": S.STOPPING_EVENT, "STOP": S.STOP_EVENT,
            "TIME_CHANGED": S.TIME_CHANGED_EVENT,
            "START_REPLICATION": R.START_REPLICATION_EVENT,
            "END_REPLICATION": R.END_REPLICATION_EVENT,
            "WARMUP": R.WARMUP_EVENT}


_CLS = None


def classes():
    global _CLS
    if _CLS is not None:
        return _CLS
    from pydsol.core.model import DSOLModel
    from pydsol.core.pubsub import EventListener
    from pydsol.core.utils import DSOLError
    ET = event_types()
    NAME = {v: k for k, v in ET.items()}

    class World:
        """shared record of one execution"""

        def __init__(self):
            self.stream = []      # notifications and handler executions
            self.arm = None       # (where, command) issued from the run thread
            self.arm_out = None
            self.busy = False
            self.sim = None
            self.model = None
            self.rep = None

        def fire_arm(self, where):
            if self.arm is not None and self.arm[0] == where:
                cmd = self.arm[1]
                self.arm = None
                if cmd[0] == "raise":
                    self.stream.append(("ARMED", where, cmd, "raised"))
                    raise RuntimeError("injected handler fault")
                if cmd[0] == "sleep":
                    # a handler that takes (virtual) time: the run is in
                    # progress while the driver issues its next command
                    self.busy = True
                    # (a timed wait: it ends only once no other thread
                    # can move, so whatever the driver does next is done
                    # while this handler is still executing)
                    coopsched.CoopEvent().wait(cmd[1])
                    self.busy = False
                    self.stream.append(("ARMED", where, cmd, "slept"))
                    return
                if cmd[0] == "stop_start":
                    o1 = issue_raw(self, ("stop",))
                    o2 = issue_raw(self, ("start",))
                    self.arm_out = (o1, o2)
                    self.stream.append(("ARMED", where, cmd, self.arm_out))
                    return
                self.arm_out = issue_raw(self, cmd)
                self.stream.append(("ARMED", where, cmd, self.arm_out))

    class Monitor(EventListener):
        def __init__(self, world):
            self.w = world

        def notify(self, e):
            s = coopsched.Sched.cur
            if s is not None and s.killed:
                return
            nm = NAME.get(e.event_type, str(e.event_type))
            ts = getattr(e, "timestamp", None)
            self.w.stream.append((nm, None if ts is None else float(ts)))
            self.w.fire_arm("on:" + nm)

    class Model(DSOLModel):
        def __init__(self, sim, world, times=TIMES, endless=False):
            super().__init__(sim)
            self.w = world
            self.times = times
            self.endless = endless
            self.trace = []

        def construct_model(self):
            self.trace = []
            for i, t in enumerate(self.times):
                self.simulator.schedule_event_abs(t, self, "h", tag=i)

        def h(self, tag):
            s = coopsched.Sched.cur
            if s is not None and s.killed:
                raise coopsched.Kill()
            if len(self.trace) > 400:
                return            # watchdog against a runaway run loop
            t = float(self.simulator.simulator_time)
            self.trace.append((t, tag))
            self.w.stream.append(("EXEC", t, tag))
            if self.endless and len(self.trace) < self.endless:
                self.simulator.schedule_event_rel(1.0, self, "h",
                                                  tag=tag + 1)
            self.w.fire_arm("h%d" % tag)

    def issue_raw(world, cmd):
        """issue a command (no waiting); returns ok / DSOLError / other:X"""
        sim = world.sim
        try:
            k = cmd[0]
            if k == "initialize":
                sim.initialize(world.model, world.rep)
                subscribe(world)
            elif k == "initialize_bad":
                # an initialize that has to be refused for its arguments
                sim.initialize(world.model, "not a replication")
            elif k == "start":
                sim.start()
            elif k == "step":
                sim.step()
            elif k == "stop":
                sim.stop()
            elif k == "upto":
                sim.run_up_to(cmd[1])
            elif k == "uptoi":
                sim.run_up_to_including(cmd[1])
            elif k == "end_replication":
                sim.end_replication()
            elif k == "cleanup":
                sim.cleanup()
            else:
                raise ValueError(cmd)
            return "ok"
        except DSOLError:
            return "DSOLError"
        except coopsched.Kill:
            raise
        except Exception as ex:  # noqa
            return "other:%s" % type(ex).__name__

    def subscribe(world):
        mon = Monitor(world)
        for et in ET.values():
            world.sim.add_listener(et, mon)

    _CLS = dict(World=World, Model=Model, Monitor=Monitor,
                issue_raw=issue_raw, subscribe=subscribe)
    return _CLS


def new_world(times=TIMES, endless=False, end=END, warmup=WARMUP):
    from pydsol.core.simulator import DEVSSimulatorFloat
    from pydsol.core.experiment import SingleReplication
    C = classes()
    w = C["World"]()
    w.sim = DEVSSimulatorFloat("s")
    w.model = C["Model"](w.sim, w, times, endless)
    w.rep = SingleReplication("r", 0.0, warmup, end)
    return w


def snapshot(w, s):
    """observable state at quiescence"""
    sim = w.sim
    live = sum(1 for t in s.threads[1:] if t.status != "done")
    try:
        pending = sim.eventlist().size()
    except Exception:  # noqa
        pending = None
    # everything simple the simulator object remembers (flags, bounds,
    # counters): part of the search state of C04a, so that two command
    # histories are merged only when the real object agrees as well
    import enum
    attrs = []
    for k, v in sorted(vars(sim).items()):
        if v is None or isinstance(v, (bool, int, float, str, enum.Enum)):
            attrs.append((k, repr(v)))
    return dict(run=sim.run_state.name, rep=sim.replication_state.name,
                clock=float(sim.simulator_time), trace=list(w.model.trace),
                live_threads=live, pending=pending, attrs=tuple(attrs))


def command(w, s, cmd, arm=None):
    """issue cmd from the driver thread with an optional armed command for the
    run thread; wait for scheduler-decided quiescence; return observation"""
    C = classes()
    w.arm = arm
    w.arm_out = None
    n0 = len(w.stream)
    out = C["issue_raw"](w, cmd)
    s.wait_quiescent()
    w.arm = None
    obs = snapshot(w, s)
    obs.update(outcome=out, armed_outcome=w.arm_out,
               emitted=list(w.stream[n0:]))
    return obs


# ---------------------------------------------------------------- monitor
def monitor(stream, warmup=WARMUP, listeners_stay=True):
    """stream rules of the property, evaluated on the notification stream of
    ONE replication (from initialize on); returns list of broken rules"""
    bad = []
    names = [x[0] for x in stream]
    notif = [x for x in stream if x[0] not in ("EXEC", "ARMED")]
    if names.count("START_REPLICATION") > 1:
        bad.append(("START_REPLICATION more than once",))
    if notif and "START_REPLICATION" in names and \
            notif[0][0] != "START_REPLICATION":
        bad.append(("START_REPLICATION not first", notif[0]))
    if notif and "START_REPLICATION" not in names and any(
            x[0] in ("START", "TIME_CHANGED", "WARMUP") for x in notif):
        bad.append(("run notifications without START_REPLICATION",))
    # START / STOP alternate
    expect = "START"
    for x in notif:
        if x[0] in ("START", "STOP"):
            if x[0] != expect:
                bad.append(("START/STOP do not alternate", x))
                break
            expect = "STOP" if expect == "START" else "START"
    # TIME_CHANGED: non-decreasing, equal to the time of the next event run
    last = None
    pending_tc = None
    prev_exec = 0.0          # the replication starts at 0
    for x in stream:
        if x[0] == "TIME_CHANGED":
            if last is not None and x[1] < last:
                bad.append(("TIME_CHANGED decreased", last, x[1]))
            last = x[1]
            if pending_tc is not None and pending_tc != x[1]:
                bad.append(("TIME_CHANGED not followed by an event at that "
                            "time", pending_tc))
            pending_tc = x[1]
        elif x[0] in ("EXEC", "WARMUP"):
            if pending_tc is not None and x[1] != pending_tc:
                bad.append(("event executed at another time than announced",
                            pending_tc, x))
            # (not for a warm-up notified by end_replication(), nor when a
            # concurrent cleanup() takes the listeners away)
            if pending_tc is None and x[1] != prev_exec and \
                    x[0] == "EXEC" and listeners_stay:
                bad.append(("event at a new time executed without a "
                            "TIME_CHANGED notification", x))
            pending_tc = None
            prev_exec = x[1]
    # executed events never go back in time
    ex = [x[1] for x in stream if x[0] == "EXEC"]
    if any(a > b for a, b in zip(ex, ex[1:])):
        bad.append(("events executed out of time order", ex))
    # WARMUP at most once and at the warm-up time
    wu = [x for x in stream if x[0] == "WARMUP"]
    if len(wu) > 1:
        bad.append(("WARMUP more than once", wu))
    if wu and wu[0][1] != warmup:
        bad.append(("WARMUP at the wrong time", wu[0]))
    if wu:
        i = stream.index(wu[0])
        before = [x for x in stream[:i] if x[0] == "EXEC"]
        after = [x for x in stream[i:] if x[0] == "EXEC"]
        if any(x[1] > warmup for x in before) or \
                any(x[1] < warmup for x in after):
            bad.append(("WARMUP not when the run reaches the warm-up time",))
    # ... and not skipped: an event later than the warm-up time is only
    # executed after the notification
    if not wu and listeners_stay and any(
            x[0] == "EXEC" and x[1] > warmup for x in stream):
        bad.append(("WARMUP never notified although the run passed the "
                    "warm-up time",))
    # END_REPLICATION at most once and last
    if names.count("END_REPLICATION") > 1:
        bad.append(("END_REPLICATION more than once",))
    if "END_REPLICATION" in names:
        i = names.index("END_REPLICATION")
        rest = [x for x in stream[i + 1:] if x[0] != "ARMED"]
        if rest:
            bad.append(("something after END_REPLICATION", rest[:3]))
    return bad
