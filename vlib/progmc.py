"""Model programs for the real DEVS simulators + a reference interpreter.

A program is a dict  tag -> list of actions; tag -1 is construct_model, tags
0..n-1 are the handlers of the scheduled events.  Actions:

  ('s', kind, d, prio, child)   schedule event `child`: kind now | rel | abs,
                                time = clock + d  (d in time units); kind at:
                                schedule_event_abs(start + d) whatever the clock
  ('c', target)                 cancel event `target` if it was ever created
  ('ill', what)                 illegal request: past | negdelay | nanabs |
                                nanrel | nanev | badtype
A fault plan (C05) maps tag -> 'pre' | 'post' (raise before/after its actions)
| 'prebase' (raise a BaseException that is not an Exception) | 'stoppre'.
"""
import itertools
import math

from vlib import coopsched
from vlib.coopsched import coop_sleep

END = 4


def time_types():
    from pydsol.core.units import Duration
    from pydsol.core.simulator import (DEVSSimulatorFloat, DEVSSimulatorInt,
                                       DEVSSimulatorDuration)
    return {
        "float": (DEVSSimulatorFloat, float),
        "int": (DEVSSimulatorInt, int),
        "duration": (DEVSSimulatorDuration, lambda x: Duration(float(x), "s")),
        # replications that do not start at zero
        "float@100": (DEVSSimulatorFloat, float),
        "float@-10": (DEVSSimulatorFloat, float),
        "int@2^60": (DEVSSimulatorInt, int),
        "duration@1h": (DEVSSimulatorDuration,
                        lambda x: Duration(float(x), "s")),
    }


def base_of(clock):
    """replication start time of a clock variant"""
    from pydsol.core.units import Duration
    return {"float": 0.0, "int": 0, "float@100": 100.0, "float@-10": -10.0,
            "int@2^60": 2 ** 60 + 123456789,
            "duration": Duration(0.0, "s"),
            "duration@1h": Duration(1.0, "h")}[clock]


# ------------------------------------------------------------------ generator
LABELS = [(d, p) for d in (0, 1, 2) for p in (1, 5, 10)]


def gen_shapes(N, max_children=2):
    """parent vectors of all trees with 1..N scheduled events, at most
    max_children scheduling actions per handler, children listed in creation
    order (non-decreasing parent index)"""
    def rec(parents):
        n = len(parents)
        if n >= 1:
            yield list(parents)
        if n == N:
            return
        for par in range(-1, n):
            if sum(1 for x in parents if x == par) >= max_children:
                continue
            if parents and par < parents[-1]:
                continue
            yield from rec(parents + [par])
    yield from rec([])


def build(parents, labs, rot=0, extra=None):
    prog = {-1: []}
    for t in range(len(parents)):
        prog[t] = []
    for t, (par, (d, p)) in enumerate(zip(parents, labs)):
        if d == 0:
            kind = ("now", "rel", "abs")[(t + rot) % 3]
        else:
            kind = ("rel", "abs")[(t + rot) % 2]
        prog[par].append(("s", kind, d, p, t))
    if extra:
        who, act, pos = extra
        if pos == 0:
            prog[who].insert(0, act)
        else:
            prog[who].append(act)
    return prog


ILLEGAL = ("past", "negdelay", "tinyneg", "nanabs", "nanrel", "nanev", "pastev",
           "badtype")


def variants(n, cancels=True, illegal=True):
    out = [None]
    if cancels:
        out += [(w, ("c", t), pos) for w in range(-1, n) for t in range(n)
                for pos in (0, 1)]
    if illegal:
        out += [(w, ("ill", k), pos) for w in range(-1, n) for k in ILLEGAL
                for pos in (0, 1)]
    return out


def prog_to_json(prog):
    return {str(k): [list(a) for a in v] for k, v in prog.items()}


def prog_from_json(j):
    return {int(k): [tuple(tuple(x) if isinstance(x, list) else x for x in a)
                     for a in v] for k, v in j.items()}


# ------------------------------------------------------------------ real model
class BaseFault(BaseException):
    """what sys.exit() / an interrupt inside a handler raises: not an
    Exception, still a failing handler"""


class Fault(Exception):
    pass


def make_model_class():
    from pydsol.core.model import DSOLModel
    from pydsol.core.simevent import SimEvent
    from pydsol.core.utils import DSOLError
    from pydsol.core.simulator import RunState

    class RawEvent(SimEvent):
        """a user implementation of the event interface that does not wrap
        handler exceptions in DSOLError"""

        def execute(self):
            self._method(**self._kwargs)

    class ProgModel(DSOLModel):
        def __init__(self, sim, prog, T, faults=None, gates=None, raw=(),
                     base=None):
            super().__init__(sim)
            self.prog = prog
            self.T = T
            self.base = T(0) if base is None else base
            self.faults = faults or {}
            self.gates = gates or {}     # execution index -> CoopEvent
            self.raw = set(raw)          # tags scheduled as non-wrapping events
            self.switch = {}             # tag -> error strategy set by handler
            self.reset()

        def reset(self):
            self.trace = []       # (clock, tag)
            self.ev = {}
            self.ill = []         # outcomes of illegal requests
            self.cancels = []     # (target, returned-without-exception)
            self.nexec = 0
            self.runaway = False

        def construct_model(self):
            self.reset()
            self.do(-1)

        def h(self, tag):
            s = coopsched.Sched.cur
            if s is not None and s.killed:
                raise coopsched.Kill()
            sim = self.simulator
            if self.nexec > 60 + 20 * len(self.prog):
                # watchdog: a correct simulator executes every event once
                self.runaway = True
                return
            self.trace.append((float(sim.simulator_time - self.base), tag))
            k = self.nexec
            self.nexec += 1
            f = self.faults.get(tag)
            g = self.gates.get(k)
            if tag in self.switch:
                # the model changes the error strategy while the run is on
                sim.set_error_strategy(self.switch[tag])
            if g is not None:
                # rendezvous: tell the driver, wait until it has asked to stop
                g.set()
                n = 0
                while sim.run_state != RunState.STOPPING and n < 10000:
                    coop_sleep(0.0001)
                    n += 1
            if f == "stoppre":
                # the handler asks for a pause itself and then fails
                try:
                    sim.stop()
                except Exception:  # noqa  (e.g. stepping: already stopped)
                    pass
                raise Fault("stoppre %r" % (tag,))
            if f == "pre":
                raise Fault("pre %r" % (tag,))
            if f == "prebase":
                raise BaseFault("prebase %r" % (tag,))
            self.do(tag)
            if f == "post":
                raise Fault("post %r" % (tag,))

        def do(self, tag):
            sim = self.simulator
            T = self.T
            for a in self.prog[tag]:
                if a[0] == "s" and a[4] in self.raw:
                    _, kind, d, p, ch = a
                    self.ev[ch] = sim.schedule_event(RawEvent(
                        sim.simulator_time + T(d), self, "h", p, tag=ch))
                elif a[0] == "s":
                    _, kind, d, p, ch = a
                    if kind == "now":
                        self.ev[ch] = sim.schedule_event_now(self, "h", p,
                                                             tag=ch)
                    elif kind == "rel":
                        self.ev[ch] = sim.schedule_event_rel(T(d), self, "h",
                                                             p, tag=ch)
                    elif kind == "at":
                        self.ev[ch] = sim.schedule_event_abs(
                            self.base + T(d), self, "h", p, tag=ch)
                    else:
                        self.ev[ch] = sim.schedule_event_abs(
                            sim.simulator_time + T(d), self, "h", p, tag=ch)
                elif a[0] == "c":
                    if a[1] in self.ev:
                        try:
                            sim.cancel_event(self.ev[a[1]])
                            self.cancels.append((a[1], "ok"))
                        except Exception as ex:  # noqa
                            self.cancels.append((a[1], type(ex).__name__))
                elif a[0] == "ill":
                    self.illegal(a[1])

        def illegal(self, what):
            sim = self.simulator
            T = self.T
            before = sim.eventlist().size()
            try:
                if what == "past":
                    sim.schedule_event_abs(sim.simulator_time - T(1), self,
                                           "h", tag="ILL")
                elif what == "negdelay":
                    sim.schedule_event_rel(T(0) - T(1), self, "h", tag="ILL")
                elif what == "tinyneg":
                    # a negative delay so small that clock + delay == clock
                    d = T(-1e-300)
                    if not d < T(0):
                        return          # not representable on an int clock
                    sim.schedule_event_rel(d, self, "h", tag="ILL")
                elif what == "nanabs":
                    sim.schedule_event_abs(self.nan(), self, "h", tag="ILL")
                elif what == "nanrel":
                    sim.schedule_event_rel(self.nan(), self, "h", tag="ILL")
                elif what == "nanev":
                    sim.schedule_event(SimEvent(self.nan(), self, "h",
                                                tag="ILL"))
                elif what == "pastev":
                    # a ready-made event a hair before the clock (one part in
                    # 10^10, or one tick on an int clock)
                    now = sim.simulator_time
                    t = now - 1 if isinstance(now, int) else \
                        now - abs(now) * 1e-10
                    if not t < now:
                        return          # clock at zero: nothing "just before"
                    sim.schedule_event(SimEvent(t, self, "h", tag="ILL"))
                elif what == "badtype":
                    sim.schedule_event_abs("soon", self, "h", tag="ILL")
                out = "accepted"
            except DSOLError:
                out = "DSOLError"
            except Exception as ex:  # noqa
                out = "other:" + type(ex).__name__
            self.ill.append((what, out, before, sim.eventlist().size()))

        def nan(self):
            t = self.T(0)
            if isinstance(t, int) and not isinstance(t, float):
                return math.nan      # an int clock can still be handed a NaN
            return type(t)(math.nan) if type(t) is not float else math.nan

    return ProgModel


_MODEL = None


def model_class():
    global _MODEL
    if _MODEL is None:
        _MODEL = make_model_class()
    return _MODEL


# ------------------------------------------------------------------ reference
class Ref:
    """reference DEVS interpreter: pending list ordered by (time, -priority,
    scheduling order); inclusive horizon; warm-up event with maximum priority
    scheduled after construct_model (it executes nothing observable here)."""

    def __init__(self, prog, end=END, warmup=0, faults=None):
        self.prog = prog
        self.end = end
        self.faults = faults or {}
        self.pend = []
        self.seq = 0
        self.clock = 0
        self.trace = []
        self.created = set()
        self.do(-1)
        self.seq += 1
        self.pend.append((warmup, -10, self.seq, "W"))

    def do(self, tag):
        for a in self.prog[tag]:
            if a[0] == "s":
                _, kind, d, p, ch = a
                self.seq += 1
                self.pend.append((d if kind == "at" else self.clock + d, -p,
                                  self.seq, ch))
                self.created.add(ch)
            elif a[0] == "c":
                for e in list(self.pend):
                    if e[3] == a[1]:
                        self.pend.remove(e)

    def peek(self):
        return min(self.pend) if self.pend else None

    def step(self):
        """execute the next pending event (no horizon test); returns tag"""
        e = min(self.pend)
        self.pend.remove(e)
        self.clock = e[0]
        if e[3] == "W":
            return "W"
        self.trace.append((float(self.clock), e[3]))
        f = self.faults.get(e[3])
        if f not in ("pre", "stoppre", "prebase"):
            self.do(e[3])
        return e[3]

    def run(self, until=None, including=True, stop_after_fault=False):
        """run while next.time < until (<= when including); returns 'fault' if
        stopped right after a failing event (pause strategy)"""
        until = self.end if until is None else until
        while self.pend:
            e = min(self.pend)
            if e[0] > until or (e[0] == until and not including):
                break
            tag = self.step()
            if stop_after_fault and tag in self.faults:
                return "fault"
        if until > self.clock:
            self.clock = until
        return "bound"

    def full_trace(self):
        self.run()
        return self.trace


def illegal_ok(rec):
    what, out, before, after = rec
    if before != after:
        return False
    if what == "badtype":
        return out != "accepted"
    return out == "DSOLError"


# ------------------------------------------------------------------ wide programs
def wide_programs(sizes, small_exhaustive=7):
    """construct_model schedules M events at distinct absolute times (a
    permutation) plus one earliest event that cancels target j: reaches heap
    layouts with 4..15 pending events.  All permutations for M <= 
    small_exhaustive, the multiplicative family i*k mod (M+1) beyond."""
    import math as _m
    for M in sizes:
        if M <= small_exhaustive:
            perms = itertools.permutations(range(1, M + 1))
        else:
            perms = [tuple((i * k) % (M + 1) for i in range(1, M + 1))
                     for k in range(1, M + 1) if _m.gcd(k, M + 1) == 1]
            perms += [tuple(reversed(q)) for q in perms]
        for perm in perms:
            for j in range(M):
                prog = {-1: [("s", "abs", perm[i], 5, i) for i in range(M)]
                        + [("s", "now", 0, 10, M)]}
                for i in range(M):
                    prog[i] = []
                prog[M] = [("c", j)]
                yield prog


# ------------------------------------------------------------------ bursts
BURST_PRIO = (5, 5, 1, 10, 5, 7)


def burst_programs(k):
    """programs with k events at ONE time (1) and one event later (2):
    'batch' = all scheduled by construct_model with tie-rich priorities,
    'chain' = each handler schedules the next one at the current time,
    'fan'   = the first handler schedules the k-1 others (now / rel 0 / abs),
    'ladder'= k events at k distinct times in scrambled scheduling order.
    Counts beyond a dozen reach thresholds no small handler tree reaches."""
    batch = {-1: [("s", "abs", 1, BURST_PRIO[i % 6], i) for i in range(k)]
             + [("s", "abs", 2, 5, k)]}
    for i in range(k + 1):
        batch[i] = []
    yield "batch", batch, END
    chain = {-1: [("s", "abs", 1, 5, 0)]}
    for i in range(k):
        chain[i] = [("s", "now", 0, 5, i + 1)] if i < k - 1 else \
            [("s", "rel", 1, 5, k)]
    chain[k] = []
    yield "chain", chain, END
    if k >= 3:
        fan = {-1: [("s", "abs", 1, 10, 0), ("s", "abs", 2, 5, k)]}
        fan[0] = [("s", ("now", "rel", "abs")[i % 3], 0, BURST_PRIO[i % 6], i)
                  for i in range(1, k)]
        for i in range(1, k + 1):
            fan[i] = []
        yield "fan", fan, END
        step = next(s for s in (7, 5, 3, 11, 13) if math.gcd(s, k) == 1)
        # distinct times 1..k scheduled in stride order; replication [0,k+2]
        ladder = {-1: []}
        for i in range(k):
            j = (i * step) % k
            ladder[-1].append(("s", "abs", 1 + j, 5, i))
            ladder[i] = []
        yield "ladder", ladder, k + 2
        # three times, one priority: ties on (time, priority) everywhere,
        # late events scheduled before early ones
        for nm, mul in (("strata", 1), ("strata-desc", -1)):
            strata = {-1: []}
            for i in range(k):
                j = (i * step) % k
                strata[-1].append(("s", "abs", 2 + mul * ((j % 3) - 1), 5, i))
                strata[i] = []
            strata[-1].append(("s", "abs", 2, 5, k))
            strata[k] = []
            yield nm, strata, END


# ------------------------------------------------------------------ lockstep
STATES = {"INIT": ("INITIALIZED", "INITIALIZED"),
          "STOPPED": ("STOPPED", "STARTED"), "ENDED": ("ENDED", "ENDED")}


class RefSim:
    """reference semantics of run pieces: ('start',) ('upto',t) ('uptoi',t)
    ('step',) ('pause_at',k).  `spec` is False for cells the documentation
    leaves open (bound before the clock / beyond the end; step when the next
    event lies beyond the end)."""

    def __init__(self, prog, end=END, warmup=0, faults=None,
                 pause_on_fault=False):
        self.ref = Ref(prog, end, warmup, faults)
        self.end = end
        self.faults = faults or {}
        self.pause_on_fault = pause_on_fault
        self.state = "INIT"
        self.nexec = 0
        self.switch = {}      # tag -> pause_on_fault from that handler on
        # has a listener been told about the current clock value?  (not after
        # a bounded run moved the clock to its bound)
        self.announced = True

    def expect(self, outcome, spec=True, **kw):
        d = dict(outcome=outcome, trace=list(self.ref.trace),
                 clock=float(self.ref.clock), state=STATES[self.state],
                 spec=spec)
        d.update(kw)
        return d

    def cmd(self, piece):
        ref = self.ref
        if self.state == "ENDED":
            return self.expect("DSOLError")
        k = piece[0]
        if k == "step":
            spec = True
            nxt = ref.peek()
            if nxt is not None and nxt[0] <= self.end:
                tag = ref.step()
                if tag in self.switch:
                    self.pause_on_fault = self.switch[tag]
                self.announced = True
                if tag != "W":
                    self.nexec += 1
            else:
                spec = nxt is None   # next event beyond the end: open cell
            self.state = "STOPPED"
            return self.expect("ok", spec)
        spec = True
        beyond = False
        pause_k = None
        pause_tc = None
        if k in ("start", "pause_at", "pause_tc"):
            bound, incl = self.end, True
            if k == "pause_at":
                pause_k = piece[1]
            if k == "pause_tc":
                pause_tc = piece[1]
        else:
            # bounded run, possibly interrupted by a stop at execution pause_k
            bound, incl = piece[1], k.startswith("uptoi")
            if k.endswith("_pause"):
                pause_k = piece[2]
            if bound < ref.clock or bound > self.end:
                spec = False
            beyond = bound > self.end and bound >= ref.clock
            if bound > self.end:
                bound, incl = self.end, True
        paused = False
        ntc = 0
        while ref.pend:
            e = ref.peek()
            if e[0] > bound or (e[0] == bound and not incl):
                break
            stop_here = False
            if e[0] != ref.clock or not self.announced:
                self.announced = True
                # the run announces a time change; a listener may stop there:
                # the announced event still runs, then the run pauses
                if pause_tc is not None and ntc == pause_tc:
                    stop_here = True
                ntc += 1
            tag = ref.step()
            if stop_here:
                paused = True
            if tag == "W":
                if paused:
                    break
                continue
            self.nexec += 1
            if pause_k is not None and self.nexec - 1 == pause_k:
                paused = True
            if tag in self.switch:
                self.pause_on_fault = self.switch[tag]
            if self.pause_on_fault and tag in self.faults:
                paused = True
            if self.faults.get(tag) == "stoppre":
                paused = True     # its own stop() holds under any strategy
            if paused:
                break
        if paused:
            self.state = "STOPPED"
            return self.expect("ok", spec, paused=True)
        if bound > ref.clock:
            ref.clock = bound
            self.announced = False
        self.state = "ENDED" if (bound >= self.end and incl) else "STOPPED"
        # a bound beyond the end: which events run is specified (all of them
        # up to and including the end), the state and clock afterwards are not
        return self.expect("ok", spec, paused=False,
                           may_end=(k in ("upto", "upto_pause")
                                    and piece[1] == self.end
                                    and (ref.peek() is None
                                         or ref.peek()[0] > self.end)),
                           trace_spec=(k.startswith("upto") and beyond))


def issue(sim, s, model, piece, T, base=None):
    """issue one piece on the real simulator from the driver thread and wait
    for scheduler-decided quiescence; returns the outcome string"""
    from pydsol.core.utils import DSOLError
    k = piece[0]
    gate = None
    if base is None:
        base = T(0)
    try:
        if k == "start":
            sim.start()
        elif k == "upto":
            sim.run_up_to(base + T(piece[1]))
        elif k == "uptoi":
            sim.run_up_to_including(base + T(piece[1]))
        elif k == "step":
            sim.step()
        elif k == "pause_tc":
            from pydsol.core.pubsub import EventListener
            from pydsol.core.interfaces import SimulatorInterface as SI_

            class StopOnTC(EventListener):
                def __init__(self, n):
                    self.n = n
                    self.seen = 0

                def notify(self, e):
                    if self.seen == self.n:
                        sim.stop()
                    self.seen += 1
            lst = StopOnTC(piece[1])
            sim.add_listener(SI_.TIME_CHANGED_EVENT, lst)
            try:
                sim.start()
                s.wait_quiescent()
            finally:
                sim.remove_listener(SI_.TIME_CHANGED_EVENT, lst)
        elif k in ("pause_at", "upto_pause", "uptoi_pause"):
            gate = coopsched.CoopEvent()
            model.gates = {piece[-1]: gate}
            if k == "pause_at":
                sim.start()
            elif k == "upto_pause":
                sim.run_up_to(base + T(piece[1]))
            else:
                sim.run_up_to_including(base + T(piece[1]))
            me = s.current
            while not gate.is_set() and not s._others_quiet(me):
                coop_sleep(0.001)
            if gate.is_set():
                sim.stop()
        else:
            raise ValueError(piece)
        out = "ok"
    except DSOLError:
        out = "DSOLError"
    except Exception as ex:  # noqa
        out = "other:%s" % type(ex).__name__
    except BaseFault as ex:
        # the handler's non-Exception came out of the command
        out = "other:%s" % type(ex).__name__
    finally:
        s.wait_quiescent()
        model.gates = {}
    return out


def run_pieces(prog, clock, pieces, faults=None, strategy=None, raw=(),
               end=END, warmup=0, listener=None, switch=None,
               bystander=False):
    """execute the piece list on the real simulator; one observation per
    piece plus a final one after cleanup.  With bystander, after every piece
    an unrelated simulator of the same class is created, initialised with
    its own copy of the program, run to its end and cleaned up in the same
    process: two simulators share nothing, so nothing may change."""
    from pydsol.core.experiment import SingleReplication
    simc, T = time_types()[clock]
    base = base_of(clock)
    M = model_class()

    def body(s):
        sim = simc("s")
        m = M(sim, prog, T, faults=faults, raw=raw, base=base)
        m.switch = dict(switch or {})
        if strategy is not None:
            if isinstance(strategy, tuple):
                sim.set_error_strategy(strategy[0], strategy[1])
            else:
                sim.set_error_strategy(strategy)
        sim.initialize(m, SingleReplication("r", base, T(warmup), T(end)))
        if listener is not None:
            listener(sim)
        obs = []
        for piece in pieces:
            out = issue(sim, s, m, piece, T, base)
            obs.append(dict(outcome=out, trace=list(m.trace),
                            clock=float(sim.simulator_time - base),
                            state=(sim.run_state.name,
                                   sim.replication_state.name)))
            if bystander:
                sim2 = simc("bystander")
                m2 = M(sim2, prog, T, base=base)
                sim2.initialize(m2, SingleReplication("r2", base, T(0),
                                                      T(end)))
                if bystander != "init":
                    issue(sim2, s, m2, ("start",), T, base)
                by.append(list(m2.trace))
                sim2.cleanup()
                s.wait_quiescent()
        sim.cleanup()
        s.wait_quiescent()
        if by:
            obs[-1]["bystander"] = by
        return obs
    by = []
    r = coopsched.run_one(body)
    if r.failure:
        return {"failure": r.failure}
    return {"obs": r.value}
