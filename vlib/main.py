"""CLI: python -m vlib.main CNN [--tier quick|thorough] [--replay file]"""
import argparse
import importlib
import json
import os
import sys
import traceback

from vlib import common


def main():
    ap = argparse.ArgumentParser()
    ap.add_argument("prop")
    ap.add_argument("--tier", default=os.environ.get("VERIF_TIER") or "quick",
                    choices=["quick", "thorough"])
    ap.add_argument("--replay")
    a = ap.parse_args()
    prop = a.prop.upper()
    try:
        seed = int(os.environ.get("VERIF_SEED", "0") or 0)
    except ValueError:
        seed = 0
    mod = importlib.import_module("checks." + prop.lower())
    if a.replay:
        with open(a.replay) as f:
            data = json.load(f)
        if isinstance(data.get("replay"), dict) and \
                data["replay"].get("unforeseen_exception"):
            # the witness is the check itself: run it again
            os.execv(sys.executable, [sys.executable, "-m", "vlib.main", prop,
                                      "--tier", data.get("tier", "quick")])
        try:
            bad = mod.replay(data["replay"])
        except common.HarnessError as e:
            print("HARNESS-ERROR %s" % e)
            return 2
        if bad:
            print("replay reproduces: %s" % bad)
            print("VIOLATION property=%s replay=%s" % (prop, a.replay))
            return 1
        print("replay: no violation on the current tree")
        return 0
    ctx = common.Ctx(prop, a.tier, seed, mod.LEVEL)
    # last-resort watchdog: a check that cannot finish is a broken check
    limit = int(os.environ.get("VERIF_TIMEOUT_S",
                               "2400" if a.tier == "quick" else "14400"))

    def on_alarm(signum, frame):
        print("HARNESS-ERROR property=%s timeout after %d s" % (prop, limit),
              flush=True)
        os._exit(2)
    import signal
    signal.signal(signal.SIGALRM, on_alarm)
    signal.alarm(limit)
    # pool tasks get their own (shorter) limit, see common._Guarded
    os.environ.setdefault("VERIF_TASK_TIMEOUT_S",
                          "900" if a.tier == "quick" else "7200")
    try:
        mod.run(ctx)
    except common.HarnessError as e:
        traceback.print_exc()
        print("HARNESS-ERROR property=%s %s" % (prop, e))
        return 2
    except (Exception, common.LibraryHang) as e:  # noqa
        # an exception the check did not foresee.  When it was raised by the
        # library itself (innermost frame under <repo>/src/pydsol) it is a
        # behaviour of the library that the unchanged tree does not show: a
        # violation with the traceback as witness.  Raised anywhere else it is
        # a broken check.
        site = library_site(e)
        if site is None and isinstance(e, (common.LibraryHang,
                                           common.LibraryHangError)) and \
                "outside the library" not in str(e):
            site = ("hang", str(e)[-120:])
        if site is None:
            raise
        ctx.violation(
            "%s:library-raised-unexpectedly:%s:%s" % (prop, type(e).__name__,
                                                      site[0]),
            "the check could not be completed: the library raised %s: %s at "
            "%s (an operation that succeeds on the unchanged tree)" % (
                type(e).__name__, str(e)[:200], site[1]),
            {"unforeseen_exception": type(e).__name__, "site": site[1]})
    finally:
        common.close_pool()
    return ctx.finish()


def library_site(exc):
    """(function name, 'file:line in function') of the innermost library frame
    when the exception was raised inside the library (directly or in a worker
    process), else None"""
    import re
    texts = []
    e = exc
    seen = 0
    while e is not None and seen < 5:
        texts.append("".join(traceback.format_exception(type(e), e,
                                                        e.__traceback__)))
        tb = getattr(e, "tb", None)          # multiprocessing RemoteTraceback
        if isinstance(tb, str):
            texts.append(tb)
        e = e.__cause__ or e.__context__
        seen += 1
    for text in texts:
        frames = re.findall(r'File "([^"]+)", line (\d+), in (\S+)', text)
        if frames and "/src/pydsol/" in frames[-1][0]:
            f, ln, fn = frames[-1]
            return fn, "%s:%s in %s" % (f[f.index("/src/pydsol/") + 5:], ln,
                                        fn)
    return None


if __name__ == "__main__":
    try:
        rc = main()
    except SystemExit:
        raise
    except BaseException:
        traceback.print_exc()
        rc = 2
    sys.stdout.flush()
    sys.stderr.flush()
    os._exit(rc)
