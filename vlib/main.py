"""CLI: python -m vlib.main CNN [--tier quick|thorough] [--replay file]"""
import argparse
import importlib
import json
import os
import sys
import traceback

from vlib import common


def main():
    ap = argparse.ArgumentParser()
    ap.add_argument("prop")
    ap.add_argument("--tier", default=os.environ.get("VERIF_TIER") or "quick",
                    choices=["quick", "thorough"])
    ap.add_argument("--replay")
    a = ap.parse_args()
    prop = a.prop.upper()
    try:
        seed = int(os.environ.get("VERIF_SEED", "0") or 0)
    except ValueError:
        seed = 0
    mod = importlib.import_module("checks." + prop.lower())
    if a.replay:
        with open(a.replay) as f:
            data = json.load(f)
        try:
            bad = mod.replay(data["replay"])
        except common.HarnessError as e:
            print("HARNESS-ERROR %s" % e)
            return 2
        if bad:
            print("replay reproduces: %s" % bad)
            print("VIOLATION property=%s replay=%s" % (prop, a.replay))
            return 1
        print("replay: no violation on the current tree")
        return 0
    ctx = common.Ctx(prop, a.tier, seed, mod.LEVEL)
    # last-resort watchdog: a check that cannot finish is a broken check
    limit = int(os.environ.get("VERIF_TIMEOUT_S",
                               "2400" if a.tier == "quick" else "14400"))

    def on_alarm(signum, frame):
        print("HARNESS-ERROR property=%s timeout after %d s" % (prop, limit),
              flush=True)
        os._exit(2)
    import signal
    signal.signal(signal.SIGALRM, on_alarm)
    signal.alarm(limit)
    try:
        mod.run(ctx)
    except common.HarnessError as e:
        traceback.print_exc()
        print("HARNESS-ERROR property=%s %s" % (prop, e))
        return 2
    finally:
        common.close_pool()
    return ctx.finish()


if __name__ == "__main__":
    try:
        rc = main()
    except SystemExit:
        raise
    except BaseException:
        traceback.print_exc()
        rc = 2
    sys.stdout.flush()
    sys.stderr.flush()
    os._exit(rc)
