"""Shared runner plumbing: context, violations, known findings, replay files,
evidence writer, worker pool."""
import hashlib
import json
import multiprocessing as mp
import os
import sys
import time

ROOT = os.path.dirname(os.path.dirname(os.path.abspath(__file__)))
REPO = os.environ.get("VERIF_REPO", "/repo")
EVIDENCE_DIR = os.environ.get("VERIF_EVIDENCE_DIR") or os.path.join(ROOT, "evidence")
REPLAY_DIR = os.path.join(ROOT, "out", "replay")
KNOWN_FILE = os.path.join(ROOT, "known_findings.json")
NCPU = max(1, min(16, os.cpu_count() or 1))


class HarnessError(Exception):
    """The check itself is broken (replay divergence, non-determinism, ...)."""


def jsonable(x):
    """Best-effort conversion of a case description to JSON."""
    if isinstance(x, (str, int, bool)) or x is None:
        return x
    if isinstance(x, float):
        if x != x or x in (float("inf"), float("-inf")):
            return repr(x)
        return x
    if isinstance(x, (list, tuple)):
        return [jsonable(i) for i in x]
    if isinstance(x, (set, frozenset)):
        return sorted((jsonable(i) for i in x), key=repr)
    if isinstance(x, dict):
        return {str(k): jsonable(v) for k, v in x.items()}
    return repr(x)


def load_known():
    try:
        with open(KNOWN_FILE) as f:
            return json.load(f)
    except FileNotFoundError:
        return {"findings": [], "fixed": []}


class Ctx:
    """One run of one property check."""

    def __init__(self, prop, tier, seed, level):
        self.prop = prop
        self.tier = tier
        self.seed = seed
        self.level = level
        self.t0 = time.time()
        self.coverage = {}
        self.assumptions = []
        self.viol = {}          # signature -> dict(what, replay, count)
        self.samples = []
        self.caps = []          # caps that were hit (then exhaustive=False)
        self.parts = []         # per-part summaries (printed + evidence)
        known = load_known()
        self.known = [k for k in known.get("findings", [])
                      if k.get("property") == prop]

    # ---- recording -----------------------------------------------------
    def violation(self, signature, what, replay, rank=0, count=1):
        """keeps, per signature, the case with the lowest rank (smallest)"""
        v = self.viol.get(signature)
        if v is None:
            self.viol[signature] = {"what": what, "replay": replay,
                                    "count": count, "rank": rank}
        else:
            v["count"] += count
            if rank < v["rank"]:
                v.update(what=what, replay=replay, rank=rank)

    def merge_violations(self, items):
        """items: iterable of (signature, what, replay) produced by workers"""
        for it in items:
            self.violation(*it)

    def sample(self, s, limit=6):
        if len(self.samples) < limit:
            self.samples.append(jsonable(s))

    def add(self, key, n=1):
        self.coverage[key] = self.coverage.get(key, 0) + n

    def part(self, name, **kw):
        d = {"part": name}
        d.update(kw)
        self.parts.append(jsonable(d))
        print("[%s] %s: %s" % (self.prop, name, ", ".join(
            "%s=%s" % (k, v) for k, v in kw.items())), flush=True)

    def cap(self, text):
        self.caps.append(text)

    # ---- finishing -----------------------------------------------------
    def _known_match(self, sig):
        for k in self.known:
            m = k.get("signature")
            if m == sig:
                return k
            pref = k.get("signature_prefix")
            if pref and sig.startswith(pref):
                return k
        return None

    def finish(self):
        os.makedirs(EVIDENCE_DIR, exist_ok=True)
        os.makedirs(REPLAY_DIR, exist_ok=True)
        new, known_hit = [], {}
        for sig, v in self.viol.items():
            k = self._known_match(sig)
            if k is not None:
                known_hit.setdefault(k["id"], (k, 0))
                known_hit[k["id"]] = (k, known_hit[k["id"]][1] + v["count"])
            else:
                new.append((sig, v))
        for kid, (k, cnt) in sorted(known_hit.items()):
            print("KNOWN-FINDING: property=%s %s [%s; %d occurrence(s) this run]"
                  % (self.prop, k["what"], kid, cnt), flush=True)
        wrote = 0
        for sig, v in new:
            if wrote >= 80:
                break
            h = hashlib.sha1(sig.encode()).hexdigest()[:12]
            path = os.path.join(REPLAY_DIR, "%s-%s.json" % (self.prop, h))
            with open(path, "w") as f:
                json.dump({"property": self.prop, "signature": sig,
                           "what": v["what"], "occurrences": v["count"],
                           "replay": jsonable(v["replay"])}, f, indent=1)
            print("  violation: %s (x%d)" % (v["what"], v["count"]))
            print("VIOLATION property=%s replay=%s" % (self.prop, path),
                  flush=True)
            wrote += 1
        cov = dict(self.coverage)
        cov["samples"] = self.samples or ["(none recorded)"]
        cov["parts"] = self.parts
        cov["exhaustive"] = not self.caps
        if self.caps:
            cov["caps_hit"] = self.caps
        cov["known_findings_seen"] = sorted(known_hit)
        ev = {"property_id": self.prop, "tier": self.tier, "seed": self.seed,
              "level": self.level, "coverage": cov,
              "assumptions": self.assumptions,
              "wall_s": round(time.time() - self.t0, 3),
              "violations": len(new)}
        with open(os.path.join(EVIDENCE_DIR, self.prop + ".json"), "w") as f:
            json.dump(ev, f, indent=1)
        print("[%s] tier=%s seed=%d wall=%.1fs new_violations=%d known=%d"
              % (self.prop, self.tier, self.seed, ev["wall_s"], len(new),
                 len(known_hit)), flush=True)
        return 1 if new else 0


# ---- time limits -----------------------------------------------------------
class LibraryHang(BaseException):
    """a library call did not return within the time limit (not an Exception:
    the many `except Exception` clauses that record a raising library call
    must not swallow it)"""


class LibraryHangError(Exception):
    """LibraryHang at the boundary of a pool task / of the check"""


class time_limit:
    """context manager: raise LibraryHang in the current (main) thread when
    the body takes longer than `seconds` of wall-clock time.  The message
    names the innermost library frame that was executing, if any."""

    def __init__(self, seconds, what=""):
        self.seconds = seconds
        self.what = what

    def _fire(self, signum, frame):
        import traceback
        stack = traceback.extract_stack(frame)
        lib = [f for f in stack if "/src/pydsol/" in f.filename]
        if lib:
            f = lib[-1]
            where = "%s:%s in %s" % (
                f.filename[f.filename.index("/src/pydsol/") + 5:], f.lineno,
                f.name)
        else:
            where = "outside the library"
        raise LibraryHang("%s did not return within %s s (executing %s)" % (
            self.what or "the operation", self.seconds, where))

    def __enter__(self):
        import signal
        self._old = signal.signal(signal.SIGALRM, self._fire)
        self._prev = signal.setitimer(signal.ITIMER_REAL, self.seconds)
        return self

    def __exit__(self, *a):
        import signal
        signal.setitimer(signal.ITIMER_REAL, 0)
        signal.signal(signal.SIGALRM, self._old)
        if self._prev and self._prev[0] > 0:
            # re-arm an enclosing limit (approximately)
            signal.setitimer(signal.ITIMER_REAL, self._prev[0])
        return False


def fingerprint(obj, label_of=None, _depth=0, _seen=None):
    """structural picture of an implementation object for state hashing:
    everything it remembers (all attributes, recursively), with the objects
    the harness knows replaced by their labels.  Used *in addition to* the
    reference state, so that two histories are merged only when the real
    object looks the same as well (a memo or a cache is hidden state)."""
    if _seen is None:
        _seen = set()
    if label_of is not None:
        lab = label_of(obj)
        if lab is not None:
            return ("ref", lab)
    if obj is None or isinstance(obj, (bool, int, float, str, bytes)):
        return repr(obj)
    if _depth > 8:
        return ("deep", type(obj).__name__)
    if id(obj) in _seen:
        return ("again", type(obj).__name__)
    if isinstance(obj, (list, tuple)) or type(obj).__name__ == "deque":
        _seen.add(id(obj))
        out = (type(obj).__name__,) + tuple(
            fingerprint(x, label_of, _depth + 1, _seen) for x in obj)
        _seen.discard(id(obj))
        return out
    if isinstance(obj, (set, frozenset)):
        return (type(obj).__name__,) + tuple(sorted(
            repr(fingerprint(x, label_of, _depth + 1, _seen)) for x in obj))
    if isinstance(obj, dict):
        _seen.add(id(obj))
        items = [(fingerprint(k, label_of, _depth + 1, _seen),
                  fingerprint(v, label_of, _depth + 1, _seen))
                 for k, v in obj.items()]
        _seen.discard(id(obj))
        # insertion order is observable for a dict: keep it
        return ("dict",) + tuple(items)
    mod = getattr(type(obj), "__module__", "") or ""
    if hasattr(obj, "__dict__") and not isinstance(obj, type) and \
            not callable(obj) and not mod.startswith(("builtins", "thread",
                                                      "_thread", "logging")):
        _seen.add(id(obj))
        out = (type(obj).__name__,) + tuple(
            (k, fingerprint(v, label_of, _depth + 1, _seen))
            for k, v in sorted(vars(obj).items())
            if not k.startswith("_verif"))
        _seen.discard(id(obj))
        return out
    return ("obj", type(obj).__name__)


class FingerprintTooFine(Exception):
    """the structural picture of the real object keeps histories apart that
    the reference merges, many times over (it contains values that differ from
    run to run: ids, counters, time stamps): the search falls back to the
    reference state alone"""


def fp_guard(n_states, n_ref_states, factor=8, slack=200):
    if n_states > factor * max(n_ref_states, 1) + slack:
        raise FingerprintTooFine("%d states for %d reference states"
                                 % (n_states, n_ref_states))


class _Guarded:
    """picklable wrapper: run one pool task under a generous time limit, so
    that a library call that never returns ends as a reported violation and
    not as a check that hangs until its last-resort watchdog"""

    def __init__(self, fn):
        self.fn = fn

    def __call__(self, task):
        limit = float(os.environ.get("VERIF_TASK_TIMEOUT_S", 0) or 0)
        try:
            if limit <= 0:
                return self.fn(task)
            with time_limit(limit, "a unit of work of the check"):
                return self.fn(task)
        except LibraryHang as ex:
            raise LibraryHangError(str(ex))
        except (KeyboardInterrupt, SystemExit, GeneratorExit):
            raise
        except Exception:
            raise
        except BaseException as ex:
            # a non-Exception that came out of the library (or out of a
            # handler through the library) would kill the pool worker and
            # leave the parent waiting for ever: hand it over as an error
            import traceback
            raise RuntimeError("non-Exception %s escaped into the check:\n%s"
                               % (type(ex).__name__, traceback.format_exc()))


# ---- worker pool ---------------------------------------------------------
_POOL = None


def pool():
    global _POOL
    if _POOL is None:
        ctx = mp.get_context("fork")
        n = int(os.environ.get("VERIF_JOBS", NCPU))
        _POOL = ctx.Pool(n)
    return _POOL


def pmap(fn, tasks, chunksize=1):
    """ordered parallel map over long-lived workers"""
    tasks = list(tasks)
    if not tasks:
        return []
    if int(os.environ.get("VERIF_JOBS", NCPU)) <= 1 or len(tasks) == 1:
        return [fn(t) for t in tasks]
    return pool().map(_Guarded(fn), tasks, chunksize)


def pimap(fn, tasks, chunksize=1):
    tasks = list(tasks)
    if int(os.environ.get("VERIF_JOBS", NCPU)) <= 1 or len(tasks) <= 1:
        for t in tasks:
            yield fn(t)
        return
    for r in pool().imap_unordered(_Guarded(fn), tasks, chunksize):
        yield r


def close_pool():
    global _POOL
    if _POOL is not None:
        _POOL.close()
        _POOL.join()
        _POOL = None


def quiet_stdio():
    """context manager redirecting fd-level stdout/stderr noise of the library
    (print() in simulator.py, traceback.print_exc) to /dev/null"""
    import contextlib
    import io

    @contextlib.contextmanager
    def cm():
        with contextlib.redirect_stdout(io.StringIO()), \
                contextlib.redirect_stderr(io.StringIO()):
            yield
    return cm()
