#!/bin/bash
# process_wave.sh "E F" [props...] : confirm + try every finished seed of a wave
LETTERS="$1"; shift
PROPS="${@:-C01 C02 C03 C04 C05 C06 C07 C08 C09 C10 C11 C12 C13 C14 C15 C16 C17 C18}"
cd /verif
for p in $PROPS; do for x in $LETTERS; do
  d=/tmp/seedout/$p/$x
  [ -f $d/patch.diff ] && [ -f $d/demo.py ] || continue
  [ -d seeded/$p-$x ] && continue
  c=$(tools/confirm_seed.sh $d $p-$x $p 2>&1 | grep -E "KEPT|REJECTED|APPLY" | head -1)
  if echo "$c" | grep -q KEPT; then
    t=$(timeout 1500 tools/try_seed.sh $p-$x 2>/dev/null | tail -1 | cut -c1-200)
    echo "$t"
  else
    echo "$p-$x: $c"
  fi
done; done
