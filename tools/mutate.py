#!/usr/bin/env python3
"""Generate single-token / single-statement mutants of the library sources.

  mutate.py list <repo> > mutants.json

Each mutant: {"id", "file", "line", "col", "old", "new", "kind", "func"}; it is
applied to the raw bytes of the file (CRLF preserved) by replacing `old` with
`new` at (line, col).  Statement deletions replace the statement text by
`pass` (same line).  Sites inside docstrings, __str__/__repr__ and logging
calls are skipped.
"""
import ast
import io
import json
import sys
import tokenize

FILES = ["eventlist.py", "simevent.py", "simulator.py", "pubsub.py",
         "statistics.py", "streams.py", "distributions.py", "units.py",
         "parameters.py", "model.py", "experiment.py", "utils.py"]
CMP = {"<": "<=", "<=": "<", ">": ">=", ">=": ">", "==": "!=", "!=": "=="}
ARI = {"+": "-", "-": "+", "*": "/", "/": "*"}
SKIP_FUNCS = {"__str__", "__repr__", "__format__"}


def func_ranges(tree):
    out = []
    for node in ast.walk(tree):
        if isinstance(node, (ast.FunctionDef, ast.AsyncFunctionDef)):
            out.append((node.lineno, node.end_lineno, node.name))
    return out


def func_of(ranges, line):
    best = None
    for lo, hi, name in ranges:
        if lo <= line <= hi and (best is None or lo >= best[0]):
            best = (lo, hi, name)
    return best[2] if best else None


def signature_lines(tree):
    """lines that belong to def headers (annotations, defaults)"""
    s = set()
    for node in ast.walk(tree):
        if isinstance(node, (ast.FunctionDef, ast.AsyncFunctionDef)):
            first = node.body[0].lineno if node.body else node.lineno
            for ln in range(node.lineno, first):
                s.add(ln)
        if isinstance(node, ast.AnnAssign):
            # annotation part only: keep value mutations
            pass
    return s


def gen(path, rel):
    raw = open(path, "rb").read()
    text = raw.decode("utf-8").replace("\r\n", "\n")
    tree = ast.parse(text)
    ranges = func_ranges(tree)
    sig = signature_lines(tree)
    muts = []
    toks = list(tokenize.generate_tokens(io.StringIO(text).readline))
    lines = text.split("\n")
    for i, t in enumerate(toks):
        line, col = t.start
        if line in sig:
            continue
        fn = func_of(ranges, line)
        if fn in SKIP_FUNCS or fn is None:
            continue
        src = lines[line - 1]
        if "logger." in src or "print(" in src or "raise " in src and \
                t.type == tokenize.NUMBER:
            continue
        prev = toks[i - 1] if i else None
        new = None
        kind = None
        if t.type == tokenize.OP and t.string in CMP:
            new, kind = CMP[t.string], "cmp"
        elif t.type == tokenize.OP and t.string in ARI:
            # binary use only
            if prev is not None and (prev.type in (tokenize.NAME,
                                                   tokenize.NUMBER)
                                     and prev.string not in (
                                         "return", "in", "and", "or", "not",
                                         "if", "else", "lambda", "yield",
                                         "import")
                                     or prev.string in (")", "]")):
                new, kind = ARI[t.string], "arith"
        elif t.type == tokenize.NAME and t.string in ("and", "or"):
            new, kind = ("or" if t.string == "and" else "and"), "bool"
        elif t.type == tokenize.NAME and t.string in ("True", "False"):
            new, kind = ("False" if t.string == "True" else "True"), "const"
        elif t.type == tokenize.NAME and t.string == "not" and \
                toks[i + 1].string != "in":
            if prev is not None and prev.string == "is":
                continue
            new, kind = "", "not"
        elif t.type == tokenize.NUMBER:
            s = t.string
            if s in ("0", "0.0"):
                new = "1" if s == "0" else "1.0"
            elif s in ("1", "1.0"):
                new = "0" if s == "1" else "0.0"
            elif s.isdigit():
                new = str(int(s) + 1)
            else:
                try:
                    new = repr(float(s) * 1.5)
                except ValueError:
                    continue
            kind = "num"
        if new is None:
            continue
        # column in UTF-8 bytes
        bcol = len(src[:col].encode("utf-8"))
        muts.append(dict(file=rel, line=line, col=bcol, old=t.string, new=new,
                         kind=kind, func=fn))
    # statement deletions: single-line calls / assignments inside functions
    for node in ast.walk(tree):
        if not isinstance(node, (ast.FunctionDef, ast.AsyncFunctionDef)) or \
                node.name in SKIP_FUNCS:
            continue
        for st in ast.walk(node):
            if isinstance(st, (ast.Expr, ast.Assign, ast.AugAssign)) and \
                    st.lineno == st.end_lineno:
                if isinstance(st, ast.Expr) and not isinstance(st.value,
                                                               ast.Call):
                    continue
                src = lines[st.lineno - 1]
                if "logger." in src or "print(" in src or "super()" in src:
                    continue
                seg = src.encode("utf-8")[st.col_offset:st.end_col_offset]
                muts.append(dict(file=rel, line=st.lineno, col=st.col_offset,
                                 old=seg.decode("utf-8"), new="pass",
                                 kind="del", func=node.name))
    return muts


def apply(raw, m):
    """returns mutated bytes"""
    parts = raw.split(b"\n")
    ln = parts[m["line"] - 1]
    old = m["old"].encode("utf-8")
    assert ln[m["col"]:m["col"] + len(old)] == old, (m, ln)
    parts[m["line"] - 1] = ln[:m["col"]] + m["new"].encode("utf-8") + \
        ln[m["col"] + len(old):]
    return b"\n".join(parts)


if __name__ == "__main__":
    repo = sys.argv[2]
    allm = []
    for f in FILES:
        rel = "src/pydsol/core/" + f
        allm += gen(repo + "/" + rel, rel)
    seen = set()
    out = []
    for m in allm:
        k = (m["file"], m["line"], m["col"], m["new"])
        if k in seen:
            continue
        seen.add(k)
        m["id"] = "M%05d" % len(out)
        out.append(m)
    json.dump(out, sys.stdout, indent=0)
