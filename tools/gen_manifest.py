#!/usr/bin/env python3
"""Regenerates /verif/MANIFEST.json from the table below (keeps it valid)."""
import json
import os

HERE = os.path.dirname(os.path.dirname(os.path.abspath(__file__)))

# id -> (category, technique, engine, text, note)
# one long axis at a time (added after the scale-dependent seeded changes)
EXTRA = {
    "C01": " Plus lists of 8-40 (thorough -66) tie-rich events: every prefix "
           "of 5-8 insertion orders, every cancellation position and pair of "
           "positions, all n! insertion orders up to n=8 (9). The canonical "
           "state includes every attribute of the list object.",
    "C02": " Plus decimal (non-dyadic) absolute and relative requests from a "
           "handler for every pair of a time grid, and bursts / ladders of up "
           "to 40 (65) events under four drivers.",
    "C03": " Plus bursts and ladders of up to 40 (65) events with a pause at "
           "every position and single steps up to every position.",
    "C04": " Plus start / pause / resume on replications with up to 40 (65) "
           "simultaneous or chained events.",
    "C05": " Plus handlers raising a non-Exception BaseException, and up to "
           "40 (65) events of which all / every second / every third fail.",
    "C06": " Plus the same replication object again, hand-scheduled events "
           "after initialize, a long-lived stream re-seeded over 20 "
           "replications and a side-effecting simulator listener built by "
           "the model.",
    "C07": " The model contains a burst of thirty simultaneous events; the "
           "run is stopped at every handler index 1..55.",
    "C08": " Plus 1-40 (65) subscribers on one type with every removal form "
           "and position, and object / NoneType payload declarations.",
    "C09": " Long series are compared after every observation up to 70.",
    "C10": " Plus six long weighted series and closed interval series "
           "compared after every observation up to 70.",
    "C11": " The model subscribes a one-shot listener to the simulator "
           "before its statistics.",
    "C12": " Plus deep / pickled copies at every position and 48 further "
           "seeds on fresh and long-lived stream objects.",
    "C13": " Plus one updater and one stream set through 48 replications in "
           "four orders, and a stream known under another name later.",
    "C15": " Plus the pmf for parameters at the closed end of their range, "
           "and for 25 samplers with 5-200 uniforms per draw the mean and "
           "spread of the draws over all points of a rank-one lattice "
           "(coarse: 0.15 sd).",
    "C16": " Plus refused operations with zero-valued operands and power "
           "chains to the 14th power.",
    "C17": " Plus text rendering of very large / very small display values.",
    "C18": " Plus trees of up to 4 (5) nested maps assembled in every order "
           "with populated sub-trees moved.",
}

CHECKS = {
    "C01": ("model_checking",
            "explicit-state BFS over heap layouts of the real EventListHeap to "
            "the fixed point, every layout x every op vs sorted-list reference",
            "seqmc",
            "All reachable internal layouts of the real event list for pools of "
            "7-9 colliding events (int/float/mixed/Duration times, several "
            "creation orders) x every add/remove/pop/clear, with every query "
            "and the full drain order compared to a sorted-list reference after "
            "each transition; plus all raw op sequences to depth 5-6 without "
            "dedup, and the comparison operators over all pairs/triples.",
            "BFS pools of <=9 events, fixed event sets beyond; adding one object twice unexplored; "
            "reference = Python sort by (time,-priority,id)."),
    "C02": ("exploration",
            "bounded-exhaustive enumeration of model programs executed on the "
            "real DEVS simulators under a cooperative scheduler, compared "
            "with a reference DEVS interpreter",
            "progmc+coopsched",
            "Every handler tree with <=3 (thorough <=4) scheduled events over "
            "delay/priority alphabets with forced ties and zero delays, alone "
            "and with every single cancel / illegal request inserted at every "
            "position, plus wide programs (4..15/23 pending events, every "
            "cancel target) on the float, int and Duration simulators; the "
            "executed (clock, tag) trace, final clock/state, refusal of every "
            "illegal request and unchanged event list are compared with a "
            "40-line reference interpreter.",
            "Sequential scheduler mode (no interleavings); reference = sorted "
            "pending list with inclusive horizon; wrong-typed times may be "
            "refused with any exception."),
    "C03": ("exploration",
            "exhaustive enumeration of segmentations (run_up_to / "
            "run_up_to_including / step / driver stop at event k) x model "
            "programs in lockstep with reference semantics on the real "
            "simulator",
            "progmc+coopsched",
            "All sequences of <=2 (thorough <=3) run pieces with cut points "
            "before/at/between event times, at and beyond the end, over all "
            "<=3-event programs and the three clocks; after every piece "
            "outcome, executed trace, clock and states must equal the "
            "reference, and the whole must equal the uninterrupted run.",
            "Unspecified cells (bound before clock / beyond end, step with "
            "next event beyond the end) only get the safety oracle; driver "
            "stop lands while handler k runs (rendezvous), other overlaps are "
            "C04."),
    "C05": ("fault_enumeration",
            "exhaustive fault-plan enumeration (which handlers fail, where, "
            "event class, strategy, driver) on the real simulator in lockstep "
            "with the reference",
            "progmc+coopsched",
            "Every single and double set of failing handlers x before/after "
            "the handler's actions x SimEvent/non-wrapping event class x the "
            "three non-terminating strategies x start / bounded pieces / "
            "step drivers over all <=3-event programs; continue strategies "
            "must give the fault-free trace, pause must stop right after the "
            "failing event and resume exactly, step must contain the failure.",
            "WARN_AND_END/EXIT outside the property; library stdout/stderr "
            "noise discarded."),
    "C08": ("model_checking",
            "explicit-state BFS over subscription states of a real "
            "EventProducer to the fixed point x every op x re-entrancy "
            "script, vs snapshot-at-fire reference; exhaustive payload table",
            "seqmc",
            "All reachable subscription states (ordered subscriber tuples per "
            "type) of one real producer with 2 types x 3 listeners and 1 type "
            "x 5 listeners (thorough: more), every add/remove/remove_all form "
            "and every fire/fire_timed paired with each re-entrancy script "
            "(unsubscribe self/later, subscribe, nested fire same/other type, "
            "remove_all) compared on the per-listener delivery log; plus every "
            "metadata declaration x payload shape x check flag x creation "
            "path.",
            "Listeners re-enter at most one level deep per listener; the "
            "producer's internal dict order is unobservable."),
    "C09": ("exploration",
            "bounded-exhaustive enumeration of observation histories on the "
            "real Tally/Counter variants vs exact rational arithmetic",
            "seqmc",
            "Every history of length <=5 (thorough 6) over a 7-value alphabet "
            "(mixed magnitude, large offset/small spread, equal values) plus "
            "initialize(), on Tally, EventBasedTally with subscriber and via "
            "notify; all 19 getters after every op against Fractions with "
            "data-derived tolerances; NaN structure; rejected inputs leave "
            "every getter bit-identical; long families to n=2000; Counter "
            "variants.",
            "Tolerance 256*n*eps*conditioning scale; infinities outside the "
            "property."),
    "C10": ("exploration",
            "bounded-exhaustive enumeration of (weight,value) and timestamp "
            "histories on the real weighted tallies vs exact rational "
            "arithmetic / exact step-function integrals",
            "seqmc",
            "Every (weight,value) history of length <=3 (thorough 4) over 5 "
            "weights x 6 values (zero weights, non-dyadic, large offset) plus "
            "initialize(); every non-decreasing timestamp history of length "
            "<=4 (5) with repeats x values x closing variants x re-initialise; "
            "plain, subscriber and notify variants.",
            "Mean at total weight zero and time average over zero span are "
            "unspecified cells."),
    "C12": ("model_checking",
            "exhaustive enumeration of operation sequences on a real "
            "MersenneTwister vs a reference built from freshly constructed "
            "real streams; twin and interleaved re-executions; scripted "
            "uniforms for the range clause",
            "seqmc",
            "Every sequence of <=4 (thorough 5) ops over 19 letters "
            "(next_float/bool, next_int over 10 ranges incl. single-value, "
            "negative, 2^60-offset, 2^1000-wide, set_seed x4, reset, save, "
            "restore) x several start seeds: reset/set_seed must equal a fresh "
            "stream with that seed, restore a fresh stream replayed to the "
            "save point; twin instance and interleaving with a second stream "
            "give identical outputs; every output range-checked; scripted "
            "extreme uniforms x 18 ranges.",
            "seed()/reset() after restoring a state saved under another seed "
            "is undocumented and excluded; ranges wider than 2^1000 outside "
            "the bound."),
    "C13": ("exploration",
            "exhaustive configuration table evaluated in-process, with hash() "
            "owned (enumerated answers), and in fresh interpreter processes "
            "with different PYTHONHASHSEED; all evaluations must agree",
            "cfgmc",
            "Name sets x original seeds x replication numbers (valid, "
            "negative, ill-typed, beyond the list) x seed tables x "
            "default/replaced fallback x all listing orders x stream "
            "histories for SimpleStreamUpdater and StreamSeedUpdater; seed and "
            "first draws identical across processes / hash answers / orders / "
            "histories; listed seed = table[r]; unlisted -> fallback; refused "
            "updates change nothing.",
            "PYTHONHASHSEED is a sampled dimension of 2^32 values; closed "
            "in-process by owning hash()."),
    "C16": ("exploration",
            "exhaustive tables over all 41x41 quantity type pairs and all SI "
            "signatures, against an independent SI-signature table",
            "cfgmc",
            "All ordered pairs x {*,/} x operand value/unit combinations, "
            "quantity/SI and SI/quantity with a reused SI operand, all "
            "as_quantity conversions, mixed-type add/sub/ordering refused, "
            "same-type ops on SI values, number scaling; 175k SI string "
            "parse/print round trips over 8 formats.",
            "Reference signatures hand-written from the SI definitions."),
    "C17": ("exploration",
            "exhaustive table over 41 classes x 838 declared units x value "
            "alphabet in two class orders; compound units recomputed from "
            "components; public names; import * in a fresh process",
            "cfgmc",
            "si == value*factor bit-exact, unit, displayvalue, str/repr, "
            "as_unit to every unit keeps si bit-identical, add/sub/compare on "
            "SI values keeping the left unit, neg/abs, descriptions, aliases, "
            "base factor 1, 219 compound spellings, all __all__ names, "
            "quantity distribution wrappers.",
            "57 non-compositional spellings skipped in the compound check."),
    "C14": ("exploration",
            "environment-answer enumeration: every script of <=5 uniforms "
            "over an extreme/branch-reaching alphabet delivered by a scripted "
            "StreamInterface to every sampler; twin/interleaving/re-pointing "
            "experiments on counting streams; systematic grid of extreme "
            "parameters x extreme uniforms with a per-draw stream budget; "
            "constructor domain table",
            "envmc",
            "44 (class, parameter) cases reaching every sampler branch x all "
            "scripts of <=5 uniforms over {0.0, 2^-1074, 2^-53, .25, .5, .75, "
            "1-2^-53} (thorough: 14 values), first and second draw: no "
            "exception, value in the support, twin instance identical in "
            "value and consumption; pairwise interleaving with 6 partner "
            "instances; re-pointing after 0..3 draws; clones given their own "
            "stream; real streams re-seeded; per class every combination of "
            "{1e-300,1e-17,1e-3,1,1e3,1e17,1e300} parameter values x scripts "
            "of extreme uniforms (draw returns within 100000 numbers, no "
            "exception, no NaN, in the support); all parameter tuples over a "
            "12-value alphabet vs the documented domains.",
            "NaN/inf parameters unspecified; a raising draw is keyed by class "
            "+ exception + raising source line + kind of triggering stream "
            "output, grid findings also by parameter regime. The sampler "
            "defects found here were repaired (fix: commits); one known "
            "finding remains (Pearson6 NaN for huge shapes and scale)."),
    "C18": ("model_checking",
            "explicit-state BFS over parameter trees under a real DSOLModel "
            "(reference tree = state), exhaustive set-value sequences per "
            "class, exhaustive constructor table",
            "seqmc",
            "E2: all trees reachable in <=3 (thorough 4) create/remove/"
            "model-set ops over keys {a,b,c} x priorities {1,2} x kinds "
            "{int,map} in maps up to depth 2, with full observation after "
            "every op; E1: all set-value sequences of length 3 (4) over "
            "per-class alphabets x read-only x {object, model, nested}; E3: "
            "131 constructor cases (a rejected constructor leaves the parent "
            "unchanged).",
            "Removing an absent key is unspecified; tree depth bounded."),
    "C04": ("model_checking",
            "explicit-state BFS over protocol states with every command "
            "(incl. commands issued from handlers/listeners) executed on the "
            "real simulator; preemption-bounded exhaustive schedule "
            "exploration (DFS re-execution under a controlled scheduler, "
            "source-line scheduling points) of command/run-thread overlaps",
            "coopsched",
            "C04a: all reachable protocol states x 87 commands (10 plain "
            "commands at quiescence + start/run_up_to with a command issued "
            "from the run thread or from inside start() at 8 locations), "
            "each transition re-executed on a fresh real simulator and "
            "compared with the protocol reference (outcome, states, clock, "
            "trace, live run threads, refused => no notification) plus the "
            "stream monitor; all raw plain sequences to depth 4 (5). C04b: 10 "
            "scenarios (start/stop, resume-after-pause with a failing "
            "handler or a handler-issued stop, stop/step/start, cleanup and "
            "initialize racing the run, back-to-back bounded runs, "
            "end_replication from the driver during the run, start while a "
            "bounded run is inside a handler, rapid start/stop) - every "
            "schedule with <=2 (some 1; thorough 2, S1: 3) preemptions; "
            "invariants I1-I6 at scheduler-decided quiescence.",
            "Line-level scheduling points in simulator.py; a runnable run "
            "thread is not starved for 1 s; '?' cells accept refusal or "
            "effect. The race families found here (signatures keyed by "
            "scenario, invariant, final states and preemption count) were "
            "first recorded and later repaired in /repo with the explorer as "
            "judge; no C04 known finding remains."),
    "C06": ("exploration",
            "exhaustive table of prior simulator histories x stochastic "
            "models x clocks; differential oracle: the replication after the "
            "history vs the same replication on a brand-new simulator",
            "coopsched",
            "18 prior histories (never started, initialised once/twice, "
            "stepped 1/2/4, stopped by a handler at event 1/3, paused by a "
            "handler fault, bounded runs, ended with a shorter/equal/longer "
            "previous replication, end_replication, cleanup, stop then step, "
            "initialize from a handler) x model variants creating all four "
            "simulation statistics and a seeded stream in construct_model "
            "(with a MAX_PRIORITY event at the warm-up instant and events "
            "pending beyond the end) x warm-ups x 3 clocks; digest = event "
            "log, statistics (hex), notification stream, pending events and "
            "clock after initialize, registered keys, one WARMUP.",
            "Sequential scheduler mode; initialize racing a run is in C04b."),
    "C11": ("exploration",
            "exhaustive enumeration of observation schedules x statistic x "
            "feeding route x warm-up x run mode on the real simulator vs "
            "reference DEVS order + ordinary statistics + exact integrals",
            "progmc+coopsched",
            "All schedules of <=2 (thorough 3) observations over 5 times "
            "(before/at/after warm-up, at the end) x priorities {1,5,10} x "
            "values, for SimCounter/SimTally/SimWeightedTally/SimPersistent "
            "fed directly, via the default data event and via listen_to, "
            "warm-up 0 or 2, uninterrupted / stepped / handler-paused, float "
            "and Duration clocks; getters bit-identical to an ordinary "
            "statistic fed the post-warm-up observations, exact time "
            "integral for the persistent, closed at the end, retrievable from "
            "the model, every published value equals the getter.",
            "Persistent n/min/max not compared; ordinary statistics "
            "themselves are C09/C10."),
    "C07": ("exploration",
            "cross-process configuration enumeration (PYTHONHASHSEED x prior "
            "activity) x exhaustive pause patterns, plus preemption-bounded "
            "schedule exploration of a polling driver; all digests of one "
            "scenario must be identical",
            "cfgmc+coopsched",
            "A stochastic fan-out model (id- and name-hashed listeners that "
            "draw from a shared stream, schedule tied events, unsubscribe and "
            "re-subscribe) run in 13 (thorough 30) fresh interpreters with "
            "different hash seeds and prior activity (event-id counter "
            "crossing 2^16/2^20(/2^24) between tied events), in each under 45 "
            "pause patterns (uninterrupted, step-all, bounded, stop at handler "
            "k=1..39, second replication); full digest equal across processes "
            "per pattern, reduced digest equal across patterns; every "
            "schedule with <=1 preemption of a polling driver gives one "
            "digest.",
            "Hash seeds / prior activity are sampled dimensions (listed in "
            "evidence)."),
    "C15": ("exploration",
            "exhaustive lattice push-forward: each sampler run on the complete "
            "midpoint lattice N^k of stream answers and compared with the "
            "closed-form cdf/pmf; grid + quadrature for densities; grids for "
            "cdf / inverse cdf",
            "envmc",
            "30 continuous and 13 discrete (class, parameter) cases reaching "
            "every sampler branch: density >= 0, zero outside the support, "
            "evaluable at bounds/mode, integral 1, equal to an independent "
            "closed form; sampler on the full lattice (16384 points for k=1, "
            "256^2, 48^3, 22^4) with Kolmogorov distance <= 2/N to the "
            "closed-form cdf, discrete lattice mass == probability() "
            "(exact where p is a multiple of 1/N); Poisson by "
            "consumption-dimension lattices; cdf/inverse-cdf/erf_inv grids "
            "(monotone, derivative = density, round trip 5e-8).",
            "No random sample is drawn (the literal 'large random sample' is "
            "replaced by the lattice push-forward); samplers consuming > 4 "
            "uniforms per accepted draw only through the same loop body at "
            "small counts; scipy closed forms as oracle; runs under "
            "python3-vt."),
}

NOT_YET = {}

ALL = ["C%02d" % i for i in range(1, 19)]


def main():
    checks = []
    for pid in ALL:
        if pid not in CHECKS:
            continue
        cat, tech, eng, text, note = CHECKS[pid]
        text += EXTRA.get(pid, "")
        checks.append({
            "property_id": pid,
            "quick_cmd": "./check %s --tier quick" % pid,
            "thorough_cmd": "./check %s --tier thorough" % pid,
            "evidence_file": "/verif/evidence/%s.json" % pid,
            "replay_cmd_template": "./check %s --replay {path}" % pid,
            "engine": eng,
            "level_claimed": {"category": cat, "text": text,
                              "design_ref": "DESIGN.md section 4, " + pid},
            "level_note": note,
            "technique": tech,
        })
    na = [{"property_id": p,
           "reason": NOT_YET.get(p, "check not built yet in this revision "
                                 "(planned, see DESIGN.md section 4)")}
          for p in ALL if p not in CHECKS]
    m = {
        "version": 1,
        "setup_cmd": "mkdir -p evidence out/replay && /venv/bin/python -c "
                     "\"import sys; sys.path.insert(0,'/repo/src'); "
                     "import pydsol.core.simulator\"",
        "hooks": {
            "guard": "PYDSOL_CORE_VERIF",
            "enable": "no source hooks: seams are installed from outside by "
                      "rebinding names in the imported pydsol.core modules; "
                      "./check exports PYDSOL_CORE_VERIF=1 for uniformity",
            "baseline_off_cmd": "cd /repo && /venv/bin/python -m pytest -ra -q "
                                "-p no:cacheprovider --timeout=900 "
                                "--continue-on-collection-errors",
            "source_commits": [],
            "add_only": True,
        },
        "engines": [
            {"name": "seqmc", "path": "/verif/vlib",
             "serves_properties": ["C01", "C08", "C12", "C18", "C09", "C10"],
             "kind_free_text": "explicit-state / bounded-exhaustive history "
             "explorer of real objects vs reference models"},
            {"name": "coopsched", "path": "/verif/vlib/coopsched.py",
             "serves_properties": ["C02", "C03", "C04", "C05", "C06", "C07",
                                   "C11"],
             "kind_free_text": "controlled scheduler for the real simulator "
             "threads (baton, virtual time, line-level scheduling points, "
             "preemption-bounded DFS)"},
        ],
        "checks": checks,
        "not_applicable": na,
        "notes": "All checks explore the real pydsol.core code from /repo/src "
                 "(working tree). Exit 0 silent / 1 VIOLATION / 2 harness error.",
    }
    with open(os.path.join(HERE, "MANIFEST.json"), "w") as f:
        json.dump(m, f, indent=1)
    print("MANIFEST.json: %d checks, %d not_applicable" % (len(checks), len(na)))


if __name__ == "__main__":
    main()
