#!/bin/bash
# sweep_seeds.sh [tier]: run every seeded change against the check of its property; record result in meta.json
TIER="${1:-quick}"
cd /verif
for d in ${SEEDS:-seeded/[A-Z]*/}; do   # SEEDS="seeded/C01-A seeded/C02-B" restricts the sweep
  ID=$(basename $d)
  OUT=$(tools/try_seed.sh $ID $TIER 2>/dev/null | tail -1)
  echo "$OUT" | cut -c1-220
  RC=$(echo "$OUT" | sed -n 's/.*rc=\([0-9]*\).*/\1/p')
  python3 - "$ID" "$RC" "$TIER" "$OUT" <<'PY'
import json,sys
i,rc,tier,out=sys.argv[1:5]
p='/verif/seeded/%s/meta.json'%i
m=json.load(open(p))
prop=m['property']
m.setdefault('detection',{})[tier]={"check":prop,"exit_code":int(rc) if rc else None,"detected":rc=="1","first_violation":out.split('::',1)[1].strip()[:300] if '::' in out else ''}
own=[prop] if m['detection'].get(tier,{}).get('detected') or any(v.get('detected') for v in m['detection'].values()) else []
cross=[c for c,v in m.get('cross_detection',{}).items() if v.get('detected')]
m['detected_by']=own+[c for c in cross if c not in own]
json.dump(m,open(p,'w'),indent=1)
PY
done
