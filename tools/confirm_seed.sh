#!/bin/bash
# confirm_seed.sh <src_dir with patch.diff demo.py notes.md> <seed-id> <property>
# Confirms independently: demo passes on clean tree, patch applies, suite passes
# with patch, demo fails with patch. Then stores it under /verif/seeded/<seed-id>/.
SRC="$1"; ID="$2"; PROP="$3"
WT=/tmp/wt/confirm_$$
git -C /repo worktree add -q --detach "$WT" HEAD || exit 2
cleanup() { git -C /repo worktree remove --force "$WT" >/dev/null 2>&1; }
trap cleanup EXIT
cd "$WT"
PYTHONPATH="$WT/src" timeout 300 /venv/bin/python "$SRC/demo.py" >/tmp/confirm_clean.out 2>&1; RC_CLEAN=$?
git apply "$SRC/patch.diff" 2>/tmp/confirm_apply.err || { echo "APPLY FAILED"; cat /tmp/confirm_apply.err; exit 3; }
SUITE=$(PYTHONPATH="$WT/src" /venv/bin/python -m pytest -q -p no:cacheprovider --timeout=900 2>&1 | grep -E "passed|failed|error" | tail -1)
PYTHONPATH="$WT/src" timeout 300 /venv/bin/python "$SRC/demo.py" >/tmp/confirm_patched.out 2>&1; RC_PATCHED=$?
echo "$ID: demo_clean_rc=$RC_CLEAN demo_patched_rc=$RC_PATCHED suite='$SUITE'"
if [ "$RC_CLEAN" = 0 ] && [ "$RC_PATCHED" != 0 ] && echo "$SUITE" | grep -q "^111 passed"; then
  mkdir -p /verif/seeded/$ID
  cp "$SRC/patch.diff" "$SRC/demo.py" /verif/seeded/$ID/
  [ -f "$SRC/notes.md" ] && cp "$SRC/notes.md" /verif/seeded/$ID/
  python3 - "$ID" "$PROP" "$RC_CLEAN" "$RC_PATCHED" "$SUITE" <<'PY'
import json,sys,subprocess
i,prop,rc,rp,suite=sys.argv[1:6]
notes=''
try: notes=open('/verif/seeded/%s/notes.md'%i).read()
except Exception: pass
head=subprocess.run(['git','-C','/repo','rev-parse','--short','HEAD'],capture_output=True,text=True).stdout.strip()
json.dump({"id":i,"property":prop,"repo_head":head,
 "needs_to_manifest":"see notes.md (written by the independent sub-agent that produced the change)",
 "confirmed":{"demo_rc_clean_tree":int(rc),"demo_rc_with_patch":int(rp),"suite_with_patch":suite,
  "how":"tools/confirm_seed.sh: fresh scratch worktree of /repo HEAD; demo.py on clean tree; git apply patch.diff; pinned pytest suite; demo.py again; worktree removed"},
 "detected_by":None}, open('/verif/seeded/%s/meta.json'%i,'w'), indent=1)
PY
  echo "KEPT $ID"
else
  echo "REJECTED $ID"; tail -5 /tmp/confirm_clean.out; tail -5 /tmp/confirm_patched.out
fi
