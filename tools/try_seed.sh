#!/bin/bash
# try_seed.sh <seed-id> [quick|thorough] [PROP-override]  : run the property's check against the seeded change
ID="$1"; TIER="${2:-quick}"
PROP="${3:-$(python3 -c "import json;print(json.load(open('/verif/seeded/$ID/meta.json'))['property'])")}"
WT=/tmp/wt/try_$$
git -C /repo worktree add -q --detach "$WT" HEAD || exit 2
trap 'git -C /repo worktree remove --force "$WT" >/dev/null 2>&1' EXIT
git -C "$WT" apply /verif/seeded/$ID/patch.diff || { echo "apply failed"; exit 3; }
cd /verif
VERIF_REPO="$WT" VERIF_EVIDENCE_DIR=/tmp/try_evidence_$$ timeout 3000 ./check "$PROP" --tier "$TIER" > /tmp/try_$ID.log 2>&1; RC=$?
NV=$(grep -c '^VIOLATION' /tmp/try_$ID.log)
echo "$ID [$PROP $TIER]: rc=$RC violations=$NV :: $(grep -m1 'violation:' /tmp/try_$ID.log | cut -c1-260)"
rm -rf /tmp/try_evidence_$$
