#!/bin/bash
# cross_seed.sh <seed-id> <PROP> [tier]: run another property's check against a seeded change and
# record the outcome under cross_detection in its meta.json
ID="$1"; PROP="$2"; TIER="${3:-quick}"
cd /verif
OUT=$(tools/try_seed.sh $ID $TIER $PROP 2>/dev/null | tail -1)
echo "$OUT" | cut -c1-200
RC=$(echo "$OUT" | sed -n 's/.*rc=\([0-9]*\).*/\1/p')
python3 - "$ID" "$PROP" "$RC" "$TIER" "$OUT" <<'PY'
import json,sys
i,prop,rc,tier,out=sys.argv[1:6]
p='/verif/seeded/%s/meta.json'%i
m=json.load(open(p))
m.setdefault('cross_detection',{})[prop]={"tier":tier,"exit_code":int(rc) if rc else None,"detected":rc=="1","first_violation":out.split('::',1)[1].strip()[:300] if '::' in out else ''}
own=[m['property']] if any(v.get('detected') for v in m.get('detection',{}).values()) else []
cross=[c for c,v in m['cross_detection'].items() if v.get('detected')]
m['detected_by']=own+[c for c in cross if c not in own]
json.dump(m,open(p,'w'),indent=1)
PY
