#!/usr/bin/env python3
"""Mutation run: which single-token mutants survive the repository's tests, and
which of the survivors do the checks report?

  mutation_run.py phase1 mutants.json out1.json [workers]
  mutation_run.py phase2 out1.json out2.json

phase1: each mutant is written into a scratch worktree of /repo (outside /repo
and /verif), the pinned pytest suite runs with -x; survivors are recorded.
phase2: for every survivor the quick checks of the properties anchored in the
mutated file run (cheapest first) with VERIF_REPO pointing at the scratch tree,
until one reports a violation.  Nothing is ever written to /repo.
"""
import json
import multiprocessing as mp
import os
import subprocess
import sys
import time

sys.path.insert(0, os.path.dirname(os.path.abspath(__file__)))
import mutate  # noqa

ROOT = "/tmp/mut"
CHECKS = {
    "eventlist.py": ["C01", "C07", "C02"],
    "simevent.py": ["C01", "C07", "C05", "C02"],
    "simulator.py": ["C06", "C07", "C04", "C03", "C05"],
    "pubsub.py": ["C08", "C07", "C11"],
    "statistics.py": ["C09", "C10", "C11", "C06"],
    "streams.py": ["C13", "C12", "C07", "C14"],
    "distributions.py": ["C14", "C15"],
    "units.py": ["C16", "C17", "C18"],
    "parameters.py": ["C18"],
    "model.py": ["C06", "C18", "C11"],
    "experiment.py": ["C06", "C13", "C07"],
    "utils.py": ["C15", "C14", "C09"],
}


def sh(cmd, **kw):
    return subprocess.run(cmd, shell=True, capture_output=True, text=True,
                          **kw)


def worktree(name):
    wt = os.path.join(ROOT, name)
    if not os.path.isdir(wt):
        os.makedirs(ROOT, exist_ok=True)
        sh("git -C /repo worktree add -q --detach %s HEAD" % wt)
    else:
        sh("git -C %s checkout -q -- . ; git -C %s checkout -q --detach "
           "$(git -C /repo rev-parse HEAD)" % (wt, wt))
    return wt


def p1_worker(args):
    wid, muts = args
    wt = worktree("w%d" % wid)
    out = []
    for m in muts:
        path = os.path.join(wt, m["file"])
        raw = open(path, "rb").read()
        try:
            mutated = mutate.apply(raw, m)
        except AssertionError:
            out.append(dict(m, tests="apply-failed"))
            continue
        open(path, "wb").write(mutated)
        t0 = time.time()
        # own process group, so that a hanging test run can be removed
        # together with its children
        pr = subprocess.Popen(
            "cd %s && PYTHONPATH=%s/src PYTHONDONTWRITEBYTECODE=1 "
            "/venv/bin/python -m pytest -x -q -p no:cacheprovider "
            "--timeout=60 2>&1 | tail -3" % (wt, wt), shell=True,
            stdout=subprocess.PIPE, stderr=subprocess.STDOUT, text=True,
            start_new_session=True)
        try:
            tail, _ = pr.communicate(timeout=400)
            res = "pass" if "111 passed" in tail else "fail"
        except subprocess.TimeoutExpired:
            import signal
            os.killpg(pr.pid, signal.SIGKILL)
            pr.communicate()
            res = "timeout"
        open(path, "wb").write(raw)
        out.append(dict(m, tests=res, secs=round(time.time() - t0, 1)))
    return out


def phase1(src, dst, workers):
    muts = json.load(open(src))
    chunks = [(i, muts[i::workers]) for i in range(workers)]
    with mp.Pool(workers) as pool:
        res = [x for part in pool.map(p1_worker, chunks) for x in part]
    res.sort(key=lambda m: m["id"])
    json.dump(res, open(dst, "w"), indent=0)
    surv = [m for m in res if m["tests"] == "pass"]
    print("mutants %d, survive the tests %d" % (len(res), len(surv)))


def phase2(src, dst):
    res = json.load(open(src))
    done = {}
    if os.path.exists(dst):
        done = {m["id"]: m for m in json.load(open(dst))}
    wt = worktree("p2")
    out = list(done.values())
    for m in res:
        if m["tests"] != "pass" or m["id"] in done:
            continue
        path = os.path.join(wt, m["file"])
        raw = open(path, "rb").read()
        open(path, "wb").write(mutate.apply(raw, m))
        verdict = "undetected"
        tried = []
        for chk in CHECKS[os.path.basename(m["file"])]:
            t0 = time.time()
            try:
                r = subprocess.run(
                    "cd /verif && VERIF_REPO=%s VERIF_EVIDENCE_DIR=/tmp/mut/ev "
                    "VERIF_TIMEOUT_S=600 ./check %s --tier quick" % (wt, chk),
                    shell=True, capture_output=True, text=True, timeout=900)
                rc = r.returncode
                first = [ln for ln in r.stdout.splitlines()
                         if "violation:" in ln][:1]
            except subprocess.TimeoutExpired:
                rc, first = 2, ["timeout"]
            tried.append((chk, rc, round(time.time() - t0, 1)))
            if rc == 1:
                verdict = "detected:" + chk
                m["first"] = first[0][:200] if first else ""
                break
            if rc == 2:
                verdict = "harness-error:" + chk
                m["first"] = (r.stdout + r.stderr)[-300:] if first != \
                    ["timeout"] else "timeout"
                break
        open(path, "wb").write(raw)
        m["verdict"] = verdict
        m["tried"] = tried
        out.append(m)
        json.dump(out, open(dst, "w"), indent=0)
        print(m["id"], m["file"].split("/")[-1], m["line"], m["kind"],
              repr(m["old"][:30]), "->", repr(m["new"]), verdict, flush=True)


if __name__ == "__main__":
    if sys.argv[1] == "phase1":
        phase1(sys.argv[2], sys.argv[3],
               int(sys.argv[4]) if len(sys.argv) > 4 else 8)
    else:
        phase2(sys.argv[2], sys.argv[3])
