"""C09 - Tally and Counter report the textbook statistics.

Bounded-exhaustive enumeration of observation histories (values, initialise,
rejected inputs) on the real Tally / EventBasedTally / Counter /
EventBasedCounter; after every operation every getter is compared with exact
rational arithmetic on the observations since the last initialise.
"""
import copy
import decimal
import fractions
import itertools
import math
from fractions import Fraction as Fr
from statistics import NormalDist

from vlib import common

LEVEL = "exploration"
EPS = 2.0 ** -52
VALS = [0, 1, -1, 2, 0.5, 0.1, 1e8 + 1, 1e8 + 2]
# magnitudes at which squares under/overflow: only totality is demanded
EXTREME = [1e-170, 2e-170, 3e-170, 2.0 ** 53 + 2, 2.0 ** 53 + 4, 1e150,
           -1e150, 1e300, -1e300, 1e308,
           # tiny: cubes and squares of the deviations underflow to zero
           0.0, 1e-110, 3e-162, 5e-324]
# (the last three: positive, but 1 - alpha/2 rounds to one)
ALPHAS = [0.0, 0.05, 0.5, 1.0, 1e-15, 1e-16, 1e-300, 5e-324]


def bad_inputs():
    # 10**400 is an int that no float can hold: whatever the tally does with
    # it (accept it exactly is impossible), nothing may change when it raises
    return [math.nan, "x", None, decimal.Decimal("1.5"), [1.0],
            fractions.Fraction(1, 2), 1 + 2j, 10 ** 400, -10 ** 400]


# ---------------------------------------------------------------- exact side
def exact(xs):
    """exact statistics (Fractions / floats from Fractions); absent key =
    undefined (must be NaN)"""
    n = len(xs)
    r = {"n": n, "sum": Fr(0)}
    if n == 0:
        return r
    X = [Fr(x) for x in xs]
    mean = sum(X) / n
    m2 = sum((x - mean) ** 2 for x in X)
    m3 = sum((x - mean) ** 3 for x in X)
    m4 = sum((x - mean) ** 4 for x in X)
    r.update(sum=sum(X), mean=mean, min=min(X), max=max(X), var_b=m2 / n)
    if n > 1:
        r["var_u"] = m2 / (n - 1)
    if m2 > 0:
        vb = float(m2 / n)
        if n > 1:
            r["skew_b"] = float(m3 / n) / vb ** 1.5
        if n > 2:
            r["skew_u"] = r["skew_b"] * math.sqrt(n * (n - 1)) / (n - 2)
            r["kurt_b"] = float((m4 / n) / ((m2 / n) ** 2))
            r["exk_b"] = r["kurt_b"] - 3
        if n > 3:
            sv = m2 / (n - 1)
            r["kurt_u"] = float(m4 / (n - 1) / sv / sv)
            r["exk_u"] = (n - 1) / ((n - 2) * (n - 3)) * (
                (n + 1) * r["exk_b"] + 6)
    return r


GETTERS = [
    ("mean", lambda t: t.mean()), ("var_b", lambda t: t.variance()),
    ("var_u", lambda t: t.variance(False)), ("sd_b", lambda t: t.stdev()),
    ("sd_u", lambda t: t.stdev(False)), ("skew_b", lambda t: t.skewness()),
    ("skew_u", lambda t: t.skewness(False)),
    ("kurt_b", lambda t: t.kurtosis()),
    ("kurt_u", lambda t: t.kurtosis(False)),
    ("exk_b", lambda t: t.excess_kurtosis()),
    ("exk_u", lambda t: t.excess_kurtosis(False)),
    ("n", lambda t: t.n()), ("min", lambda t: t.min()),
    ("max", lambda t: t.max()), ("sum", lambda t: t.sum()),
] + [("ci%s" % a, (lambda a: lambda t: t.confidence_interval(a))(a))
     for a in ALPHAS]


def snapshot(t):
    out = []
    for name, f in GETTERS:
        try:
            v = f(t)
        except Exception as ex:  # noqa
            v = ("raised", type(ex).__name__)
        out.append(v)
    return out


def same(a, b):
    if isinstance(a, tuple) and isinstance(b, tuple):
        return len(a) == len(b) and all(same(x, y) for x, y in zip(a, b))
    if isinstance(a, float) and isinstance(b, float) and a != a and b != b:
        return True
    return a == b and type(a) == type(b)


def isnan(v):
    return isinstance(v, float) and v != v


def compare(t, xs):
    """returns list of (getter, got, expected-description)"""
    ex = exact(xs)
    n = len(xs)
    snap = dict(zip([g[0] for g in GETTERS], snapshot(t)))
    bad = []
    for k, v in snap.items():
        if isinstance(v, tuple) and v and v[0] == "raised":
            bad.append((k, v, "query must not raise"))
    if bad:
        return bad
    if snap["n"] != n:
        bad.append(("n", snap["n"], n))
    if n == 0:
        for k in ("min", "max", "mean", "var_b", "var_u", "sd_b", "sd_u",
                  "skew_b", "skew_u", "kurt_b", "kurt_u", "exk_b", "exk_u"):
            if not isnan(snap[k]):
                bad.append((k, snap[k], "NaN (no observations)"))
        if snap["sum"] != 0:
            bad.append(("sum", snap["sum"], 0))
        for a in ALPHAS:
            ci = snap["ci%s" % a]
            if not (isinstance(ci, tuple) and len(ci) == 2 and isnan(ci[0])
                    and isnan(ci[1])):
                bad.append(("ci%s" % a, ci, "(NaN, NaN)"))
        return bad
    mx = max(abs(x) for x in xs)
    mean = float(ex["mean"])
    spread = max(abs(float(Fr(x) - ex["mean"])) for x in xs)
    unit = 256 * n * EPS

    def close(k, got, want, scale):
        w = float(want)
        tol = unit * max(abs(w), scale)
        if not (isinstance(got, (int, float)) and abs(got - w) <= tol):
            bad.append((k, got, "%r +- %.3g" % (w, tol)))
    if snap["min"] != float(ex["min"]):
        bad.append(("min", snap["min"], float(ex["min"])))
    if snap["max"] != float(ex["max"]):
        bad.append(("max", snap["max"], float(ex["max"])))
    close("sum", snap["sum"], ex["sum"], mx)
    close("mean", snap["mean"], ex["mean"], mx)
    vscale = spread * spread + mx * spread
    tolv = {}
    for k in ("var_b", "var_u"):
        if k in ex:
            close(k, snap[k], ex[k], vscale)
            tolv[k] = unit * max(abs(float(ex[k])), vscale)
        elif not isnan(snap[k]):
            bad.append((k, snap[k], "NaN (too few observations)"))
    for k, vk in (("sd_b", "var_b"), ("sd_u", "var_u")):
        if vk in ex:
            sd = math.sqrt(float(ex[vk]))
            if sd > 0:
                tol = tolv[vk] / (2 * sd) + unit * sd
            else:
                tol = math.sqrt(tolv[vk]) if tolv[vk] > 0 else 0.0
            if not abs(snap[k] - sd) <= tol:
                bad.append((k, snap[k], "%r +- %.3g" % (sd, tol)))
        elif not isnan(snap[k]):
            bad.append((k, snap[k], "NaN (too few observations)"))
    well = spread > 0 and spread / max(mx, 1e-300) >= 1e-6
    for k in ("skew_b", "skew_u", "kurt_b", "kurt_u", "exk_b", "exk_u"):
        if k in ex:
            if well:
                close(k, snap[k], ex[k], 1.0)
            elif isnan(snap[k]):
                bad.append((k, snap[k], "a number"))
        elif not isnan(snap[k]):
            bad.append((k, snap[k], "NaN (undefined: too few observations "
                        "or zero variance)"))
    # confidence interval
    for a in ALPHAS:
        ci = snap["ci%s" % a]
        if not (isinstance(ci, tuple) and len(ci) == 2):
            bad.append(("ci%s" % a, ci, "a pair"))
            continue
        if n < 2:
            if not (isnan(ci[0]) and isnan(ci[1])):
                bad.append(("ci%s" % a, ci, "(NaN, NaN) for n < 2"))
            continue
        lo_b, hi_b = float(ex["min"]), float(ex["max"])
        sdu = math.sqrt(float(ex["var_u"]))
        if 1 - a / 2 >= 1.0:
            want = (lo_b, hi_b)
            tol = 0.0
        else:
            z = NormalDist().inv_cdf(1 - a / 2)
            h = z * sdu / math.sqrt(n)
            want = (max(lo_b, mean - h), min(hi_b, mean + h))
            tsd = (tolv["var_u"] / (2 * sdu)) if sdu > 0 else \
                math.sqrt(tolv["var_u"])
            tol = unit * max(abs(mean), mx) + z * tsd / math.sqrt(n) \
                + unit * h
        if not (abs(ci[0] - want[0]) <= tol and abs(ci[1] - want[1]) <= tol):
            bad.append(("ci%s" % a, ci, "%r +- %.3g" % (want, tol)))
    return bad


# ---------------------------------------------------------------- real side
class Sub:
    """subscriber that compares every published value with the getter"""

    def __init__(self):
        self.stat = None
        self.bad = []
        self.n = 0

    def notify(self, e):
        self.n += 1
        name = e.event_type.name
        g = {"N_EVENT": lambda s: s.n(), "COUNT_EVENT": lambda s: s.count(),
             "MIN_EVENT": lambda s: s.min(), "MAX_EVENT": lambda s: s.max(),
             "SUM_EVENT": lambda s: s.sum(), "MEAN_EVENT": lambda s: s.mean(),
             "POPULATION_VARIANCE_EVENT": lambda s: s.variance(),
             "SAMPLE_VARIANCE_EVENT": lambda s: s.variance(False),
             "POPULATION_STDEV_EVENT": lambda s: s.stdev(),
             "SAMPLE_STDEV_EVENT": lambda s: s.stdev(False),
             "POPULATION_SKEWNESS_EVENT": lambda s: s.skewness(),
             "SAMPLE_SKEWNESS_EVENT": lambda s: s.skewness(False),
             "POPULATION_KURTOSIS_EVENT": lambda s: s.kurtosis(),
             "SAMPLE_KURTOSIS_EVENT": lambda s: s.kurtosis(False),
             "POPULATION_EXCESS_K_EVENT": lambda s: s.excess_kurtosis(),
             "SAMPLE_EXCESS_K_EVENT": lambda s: s.excess_kurtosis(False),
             }.get(name)
        if g is not None and self.stat is not None:
            v = g(self.stat)
            if not same(v, e.content):
                self.bad.append((name, e.content, v))


def make(variant):
    from pydsol.core import statistics as S
    from pydsol.core.pubsub import EventListener
    from pydsol.core.interfaces import StatEvents
    if variant == "plain":
        t = S.Tally("t")
        t._verif_sub = None
        return t, None

    class L(Sub, EventListener):
        pass
    t = S.EventBasedTally("t")
    sub = L()
    for nm in dir(StatEvents):
        if nm.endswith("_EVENT") and "DATA" not in nm:
            t.add_listener(getattr(StatEvents, nm), sub)
    t._verif_sub = sub
    sub.stat = t
    return t, sub


def feed(t, variant, v):
    if variant == "notify":
        from pydsol.core.pubsub import Event
        from pydsol.core.interfaces import StatEvents
        t.notify(Event(StatEvents.DATA_EVENT, v))
    else:
        t.register(v)


def clone(t, sub=None):
    """deep copy: an implementation may keep mutable containers, which
    siblings in the search tree must not share"""
    return copy.deepcopy(t)


def check_rejected(t, variant, sub, xs, out, hist):
    before = snapshot(t)
    for b in bad_inputs():
        c = clone(t)
        try:
            feed(c, variant, b)
            out.append(("invalid-observation-accepted", hist, repr(b)[:40]))
        except Exception:  # noqa
            pass
        after = snapshot(c)
        if not all(same(x, y) for x, y in zip(before, after)):
            diff = [(GETTERS[i][0], before[i], after[i])
                    for i in range(len(before))
                    if not same(before[i], after[i])]
            out.append(("rejected-input-changed-state", hist, repr(b)[:40],
                        diff[:3]))


def dfs(task):
    variant, first, L = task
    ops = VALS + ["init"]
    viols = []
    n_nodes = 0
    nontriv = set()
    sample = None

    def visit(t, sub, xs, hist, depth):
        nonlocal n_nodes, sample
        n_nodes += 1
        sub = t._verif_sub
        for b in compare(t, xs):
            viols.append(("getter:" + b[0], list(hist), b))
        if sub is not None and sub.bad:
            viols.append(("published-value", list(hist), sub.bad[0]))
            del sub.bad[:]
        if depth <= 3:
            check_rejected(t, variant, sub, xs, viols, list(hist))
        if len(xs) >= 2 and len(set(xs)) >= 1:
            nontriv.add(tuple(hist))
        if depth == L:
            if sample is None and len(xs) >= 3:
                sample = {"variant": variant, "history": list(hist),
                          "getters": dict(zip([g[0] for g in GETTERS],
                                              common.jsonable(snapshot(t))))}
            return
        for op in ops:
            if len(viols) > 200:
                return
            c = clone(t)
            try:
                if op == "init":
                    c.initialize()
                    xs2 = []
                else:
                    feed(c, variant, op)
                    xs2 = xs + [float(op) if variant == "notify" else op]
            except Exception as ex:  # noqa
                viols.append(("operation-raised", list(hist) + [op],
                              "%s: %s" % (type(ex).__name__, ex)))
                continue
            visit(c, sub, xs2, hist + [op], depth + 1)

    t, sub = make(variant)
    if sub is not None:
        sub.stat = t
    try:
        if first == "init":
            t.initialize()
            xs = []
        else:
            feed(t, variant, first)
            xs = [float(first) if variant == "notify" else first]
        visit(t, sub, xs, [first], 1)
    except Exception as ex:  # noqa
        viols.append(("operation-raised", [first],
                      "%s: %s" % (type(ex).__name__, ex)))
    return dict(variant=variant, nodes=n_nodes, nontrivial=len(nontriv),
                viols=viols[:200], sample=sample)


def long_families(variant):
    fams = {
        "constant x1000": [3.25] * 1000,
        "constant 0.1 x1000": [0.1] * 1000,
        "constant 1/3 x50": [1 / 3] * 50,
        "constant 1e9+0.1 x1000": [1e9 + 0.1] * 1000,
        "arithmetic progression x1000": [0.5 * i for i in range(1000)],
        "alternating +-1 x2000": [(-1) ** i for i in range(2000)],
        "large offset x1500": [1e8 + (i % 3) for i in range(1500)],
        "mixed magnitude x600": [(10.0 ** (i % 7 - 3)) * (1 + i % 5)
                                 for i in range(600)],
    }
    viols = []
    n = 0
    marks = set(range(1, 71)) | {100, 128, 129, 500, 600, 1000, 1500, 2000}
    for name, data in fams.items():
        t, sub = make(variant)
        if sub is not None:
            sub.stat = t
        xs = []
        for i, v in enumerate(data):
            try:
                feed(t, variant, v)
            except Exception as ex:  # noqa
                viols.append(("operation-raised", [name, i],
                              "%s: %s" % (type(ex).__name__, ex)))
                break
            xs.append(v)
            if len(xs) in marks:
                n += 1
                for b in compare(t, xs):
                    viols.append(("getter:" + b[0], [name, len(xs)], b))
        if sub is not None and sub.bad:
            viols.append(("published-value", [name], sub.bad[0]))
    return n, viols


def extreme_worker(first):
    """sequences over magnitudes whose squares underflow / overflow: no query
    may raise, and n / min / max stay exact"""
    from pydsol.core import statistics as S
    n = 0
    viols = []
    for k in range(0, 4):
        for rest in itertools.product(EXTREME, repeat=k):
            seq = (first,) + rest
            for variant in ("plain", "event"):
                n += 1
                t, sub = make(variant)
                try:
                    for x in seq:
                        t.register(x)
                except Exception as ex:  # noqa
                    viols.append(("register-raised:" + type(ex).__name__,
                                  list(seq), variant))
                    continue
                snap = dict(zip([g[0] for g in GETTERS], snapshot(t)))
                for g, v in snap.items():
                    if isinstance(v, tuple) and v and v[0] == "raised":
                        viols.append(("getter-raised:%s:%s" % (g, v[1]),
                                      list(seq), variant))
                if snap["n"] != len(seq) or snap["min"] != min(seq) or \
                        snap["max"] != max(seq):
                    viols.append(("n-min-max", list(seq), variant))
    return n, viols[:100]


# ---------------------------------------------------------------- counter
def counter_check(L):
    from pydsol.core import statistics as S
    from pydsol.core.pubsub import EventListener, Event
    from pydsol.core.interfaces import StatEvents
    incs = [0, 1, -1, 5, 2 ** 70]
    bads = [1.5, "x", None, math.nan, [1], decimal.Decimal(2)]
    viols = []
    n = 0

    class LL(Sub, EventListener):
        pass
    for variant in ("plain", "event", "notify"):
        for seq in itertools.chain.from_iterable(
                itertools.product(incs + ["init"], repeat=k)
                for k in range(0, L + 1)):
            n += 1
            if variant == "plain":
                c, sub = S.Counter("c"), None
            else:
                c = S.EventBasedCounter("c")
                sub = LL()
                sub.stat = c
                for nm in ("N_EVENT", "COUNT_EVENT", "INITIALIZED_EVENT",
                           "OBSERVATION_ADDED_EVENT"):
                    c.add_listener(getattr(StatEvents, nm), sub)
            xs = []
            try:
                for op in seq:
                    if op == "init":
                        c.initialize()
                        xs = []
                    elif variant == "notify":
                        c.notify(Event(StatEvents.DATA_EVENT, op))
                        xs.append(op)
                    else:
                        c.register(op)
                        xs.append(op)
                got = (c.n(), c.count())
            except Exception as ex:  # noqa
                viols.append(("counter-raised", variant, list(seq),
                              type(ex).__name__))
                continue
            if got != (len(xs), sum(xs)):
                viols.append(("counter-value", variant, list(seq), got,
                              (len(xs), sum(xs))))
            if sub is not None and sub.bad:
                viols.append(("counter-published", variant, list(seq),
                              sub.bad[0]))
            if len(seq) <= 2:
                for b in bads:
                    before = (c.n(), c.count())
                    try:
                        if variant == "notify":
                            c.notify(Event(StatEvents.DATA_EVENT, b))
                        else:
                            c.register(b)
                        viols.append(("counter-invalid-accepted", variant,
                                      list(seq), repr(b)))
                    except Exception:  # noqa
                        pass
                    if (c.n(), c.count()) != before:
                        viols.append(("counter-rejected-changed", variant,
                                      list(seq), repr(b)))
    return n, viols


def run(ctx):
    quick = ctx.tier == "quick"
    L = 5 if quick else 6
    tasks = [(v, f, L) for v in ("plain", "event", "notify")
             for f in VALS + ["init"]]
    nodes = nontriv = 0
    for r in common.pimap(dfs, tasks):
        nodes += r["nodes"]
        nontriv += r["nontrivial"]
        if r["sample"]:
            ctx.sample(r["sample"], limit=3)
        for v in r["viols"]:
            ctx.violation("C09:%s:%s" % (r["variant"], v[0]),
                          "Tally (%s variant) after %s: %s" % (
                              r["variant"], v[1], v[2:]),
                          {"kind": "tally", "variant": r["variant"],
                           "history": v[1]}, rank=len(v[1]))
    ctx.part("tally histories", nodes=nodes, depth=L)
    nl = 0
    for variant in ("plain", "event", "notify"):
        n, viols = long_families(variant)
        nl += n
        for v in viols:
            ctx.violation("C09:%s:long:%s" % (variant, v[0]),
                          "Tally (%s) long family %s: %s" % (variant, v[1],
                                                             v[2:]),
                          {"kind": "long", "variant": variant})
    ctx.part("long families (n up to 2000)", checkpoints=nl)
    ne = 0
    for n, viols in common.pimap(extreme_worker, EXTREME):
        ne += n
        for v in viols:
            ctx.violation("C09:extreme:%s" % v[0],
                          "Tally (%s) with extreme magnitudes %s: %s" % (
                              v[2], v[1], v[0]),
                          {"kind": "extreme", "history": v[1],
                           "variant": v[2]}, rank=len(v[1]))
    ctx.part("extreme magnitudes (totality only)", sequences=ne,
             alphabet=[repr(x) for x in EXTREME])
    nc, cv = counter_check(4 if quick else 5)
    ctx.part("counter histories", sequences=nc, violations=len(cv))
    for v in cv:
        ctx.violation("C09:counter:%s:%s" % (v[1], v[0]), "Counter: %s" % (v,),
                      {"kind": "counter"})
    ctx.coverage.update(
        evaluations=nodes + nl + nc + ne, distinct_nontrivial=nontriv,
        rule="all operation histories of length <= %d over {register v : v in "
        "%s} + initialize() on Tally, EventBasedTally with a subscriber "
        "(register) and EventBasedTally fed through notify(DATA_EVENT); after "
        "every operation all %d getters (both 'biased' settings, CI for alpha "
        "in %s) vs exact Fraction arithmetic on the observations since the "
        "last initialise; at depth <= 3 every invalid input (NaN, str, None, "
        "Decimal, list, Fraction, complex) must raise and leave every getter "
        "bit-identical; deterministic long families to n = 2000; Counter / "
        "EventBasedCounter histories. Histories are distinct by construction; "
        "non-trivial = at least two observations since the last initialise."
        % (L, VALS, len(GETTERS), ALPHAS))
    ctx.assumptions += [
        "tolerance |impl-exact| <= 256*n*eps*max(|exact|, S) with S the "
        "conditioning scale (max|x| for sum/mean, spread^2+max|x|*spread for "
        "variances, 1 for skewness/kurtosis which are compared only when "
        "spread/max|x| >= 1e-6)",
        "confidence interval = mean +- z(1-alpha/2)*sqrt(S^2/n) clipped to "
        "[min,max]; alpha=0 gives (min,max); z from statistics.NormalDist",
        "infinite observations are outside the property ('finite numeric')"]


def replay(data):
    if data.get("kind") == "tally":
        t, sub = make(data["variant"])
        xs = []
        out = []
        for op in data["history"]:
            if op == "init":
                t.initialize()
                xs = []
            else:
                try:
                    feed(t, data["variant"], op)
                except Exception as ex:  # noqa
                    return [("operation-raised", type(ex).__name__)]
                xs.append(float(op) if data["variant"] == "notify" else op)
        out = compare(t, xs)
        check_rejected(t, data["variant"], sub, xs, out, data["history"])
        return out or None
    if data.get("kind") == "extreme":
        for e in EXTREME:
            n, v = extreme_worker(e)
            v = [x for x in v if x[1] == data["history"]]
            if v:
                return v[:3]
        return None
    if data.get("kind") == "long":
        n, v = long_families(data["variant"])
        return v[:3] or None
    n, v = counter_check(3)
    return v[:3] or None
