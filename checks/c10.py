"""C10 - weighted and time-weighted tallies.

Bounded-exhaustive enumeration of (weight, value) histories and of timestamp
histories (repeats, closing, use after closing, re-initialise) on the real
WeightedTally / TimestampWeightedTally and their event-publishing variants;
after every operation every getter is compared with exact rational arithmetic
(weighted moments / exact integral of the step function).
"""
import copy
import decimal
import itertools
import math
from fractions import Fraction as Fr

from vlib import common

LEVEL = "exploration"
EPS = 2.0 ** -52
W = [0, 1, 2, 0.5, 0.3]
V = [0, 1, -1, 3, 0.1, 1e8 + 1]


def isnan(v):
    return isinstance(v, float) and v != v


def same(a, b):
    if isinstance(a, float) and isinstance(b, float) and a != a and b != b:
        return True
    return a == b and type(a) == type(b)


WG = [("n", lambda t: t.n()), ("min", lambda t: t.min()),
      ("max", lambda t: t.max()), ("wsum", lambda t: t.weighted_sum()),
      ("wmean", lambda t: t.weighted_mean()),
      ("wvar_b", lambda t: t.weighted_variance()),
      ("wvar_u", lambda t: t.weighted_variance(False)),
      ("wsd_b", lambda t: t.weighted_stdev()),
      ("wsd_u", lambda t: t.weighted_stdev(False))]


def snapshot(t):
    out = []
    # the same queries in keyword style, asked first: the answers below must
    # not depend on which spelling was used before
    try:
        kw = (t.weighted_variance(biased=False), t.weighted_stdev(biased=False),
              t.weighted_variance(biased=True), t.weighted_stdev(biased=True))
    except Exception as ex:  # noqa
        kw = ("raised", type(ex).__name__)
    for name, f in WG:
        try:
            out.append(f(t))
        except Exception as ex:  # noqa
            out.append(("raised", type(ex).__name__))
    d = dict(zip([g[0] for g in WG], out))
    pos = (d["wvar_u"], d["wsd_u"], d["wvar_b"], d["wsd_b"])
    if not all(same(a_, b_) for a_, b_ in zip(kw, pos)):
        # reported through the value of the first getter of the snapshot
        out[0] = ("raised", "keyword-and-positional-queries-disagree: "
                  "%r vs %r" % (kw, pos))
    return out


def compare_weighted(t, obs):
    """obs: list of (w, v) since the last initialise"""
    snap = dict(zip([g[0] for g in WG], snapshot(t)))
    bad = []
    for k, v in snap.items():
        if isinstance(v, tuple):
            bad.append((k, v, "query must not raise"))
    if bad:
        return bad
    n = len(obs)
    if snap["n"] != n:
        bad.append(("n", snap["n"], n))
    if n == 0:
        for k in ("min", "max", "wmean", "wvar_b", "wvar_u", "wsd_b",
                  "wsd_u"):
            if not isnan(snap[k]):
                bad.append((k, snap[k], "NaN (no observations)"))
        if snap["wsum"] != 0:
            bad.append(("wsum", snap["wsum"], 0))
        return bad
    vals = [v for _, v in obs]
    if snap["min"] != min(vals) or snap["max"] != max(vals):
        bad.append(("minmax", (snap["min"], snap["max"]),
                    (min(vals), max(vals))))
    pos = [(Fr(w), Fr(v)) for w, v in obs if w > 0]
    M = len(pos)
    sw = sum(w for w, _ in pos)
    ws = sum(w * v for w, v in pos)
    mx = max([abs(v) for _, v in obs] + [1e-300])
    wmax = max([float(w) for w, _ in pos] + [0.0])
    unit = 256 * max(n, 1) * EPS

    def close(k, got, want, scale):
        w_ = float(want)
        tol = unit * max(abs(w_), scale)
        if not (isinstance(got, (int, float)) and abs(got - w_) <= tol):
            bad.append((k, got, "%r +- %.3g" % (w_, tol)))
        return tol
    close("wsum", snap["wsum"], ws, mx * wmax)
    if M == 0:
        # total weight zero: the mean is unspecified (0.0 or NaN accepted)
        for k in ("wvar_b", "wvar_u", "wsd_b", "wsd_u"):
            if not isnan(snap[k]):
                bad.append((k, snap[k], "NaN (no positive weight)"))
        return bad
    mu = ws / sw
    close("wmean", snap["wmean"], mu, mx)
    spread = max(abs(float(v - mu)) for _, v in pos)
    pv = sum(w * (v - mu) ** 2 for w, v in pos) / sw
    vscale = spread * spread + mx * spread
    tv = close("wvar_b", snap["wvar_b"], pv, vscale)
    sd = math.sqrt(float(pv))
    tol = (tv / (2 * sd) + unit * sd) if sd > 0 else math.sqrt(tv)
    if not abs(snap["wsd_b"] - sd) <= tol:
        bad.append(("wsd_b", snap["wsd_b"], "%r +- %.3g" % (sd, tol)))
    if M > 1:
        sv = pv * M / (M - 1)
        tv = close("wvar_u", snap["wvar_u"], sv, vscale * 2)
        sd = math.sqrt(float(sv))
        tol = (tv / (2 * sd) + unit * sd) if sd > 0 else math.sqrt(tv)
        if not abs(snap["wsd_u"] - sd) <= tol:
            bad.append(("wsd_u", snap["wsd_u"], "%r +- %.3g" % (sd, tol)))
    else:
        for k in ("wvar_u", "wsd_u"):
            if not isnan(snap[k]):
                bad.append((k, snap[k], "NaN (one positively weighted "
                            "observation)"))
    return bad


class Sub:
    def __init__(self):
        self.stat = None
        self.bad = []

    def notify(self, e):
        g = {"N_EVENT": lambda s: s.n(), "MIN_EVENT": lambda s: s.min(),
             "MAX_EVENT": lambda s: s.max(),
             "WEIGHTED_SUM_EVENT": lambda s: s.weighted_sum(),
             "WEIGHTED_MEAN_EVENT": lambda s: s.weighted_mean(),
             "WEIGHTED_POPULATION_VARIANCE_EVENT":
                 lambda s: s.weighted_variance(),
             "WEIGHTED_SAMPLE_VARIANCE_EVENT":
                 lambda s: s.weighted_variance(False),
             "WEIGHTED_POPULATION_STDEV_EVENT": lambda s: s.weighted_stdev(),
             "WEIGHTED_SAMPLE_STDEV_EVENT":
                 lambda s: s.weighted_stdev(False)}.get(e.event_type.name)
        if g is not None and self.stat is not None:
            v = g(self.stat)
            if not same(v, e.content):
                self.bad.append((e.event_type.name, e.content, v))


def make(kind, variant):
    if variant == "duration":
        variant = "plain"
    from pydsol.core import statistics as S
    from pydsol.core.pubsub import EventListener
    from pydsol.core.interfaces import StatEvents
    if variant == "plain":
        t = (S.WeightedTally if kind == "w" else S.TimestampWeightedTally)("t")
        t._verif_sub = None
        return t

    class L(Sub, EventListener):
        pass
    t = (S.EventBasedWeightedTally if kind == "w"
         else S.EventBasedTimestampWeightedTally)("t")
    sub = L()
    for nm in dir(StatEvents):
        if nm.endswith("_EVENT") and "DATA" not in nm:
            t.add_listener(getattr(StatEvents, nm), sub)
    sub.stat = t
    t._verif_sub = sub
    return t


def feed_w(t, variant, w, v):
    if variant == "notify":
        from pydsol.core.pubsub import Event
        from pydsol.core.interfaces import StatEvents
        t.notify(Event(StatEvents.WEIGHT_DATA_EVENT, (w, v)))
    else:
        t.register(w, v)


def feed_t(t, variant, ts, v):
    if variant == "duration":
        # timestamps as Duration quantities (a Duration simulator's clock)
        from pydsol.core.units import Duration
        t.register(Duration(float(ts), "s") if ts == ts else ts, v)
        return
    if variant == "notify":
        from pydsol.core.pubsub import TimedEvent
        from pydsol.core.interfaces import StatEvents
        t.notify(TimedEvent(ts, StatEvents.TIMESTAMP_DATA_EVENT, v))
    else:
        t.register(ts, v)


BADW = [(-1, 1), (math.nan, 1), (1, math.nan), ("x", 1), (1, None),
        (decimal.Decimal(1), 1), (1, decimal.Decimal(1)), (-0.5, 0)]


def weighted_dfs(task):
    variant, first, L = task
    ops = [(w, v) for w in W for v in V] + ["init"]
    viols = []
    nodes = 0
    nontriv = 0
    sample = None

    def conv(o):
        return (float(o[0]), float(o[1])) if variant == "notify" else o

    def visit(t, obs, hist, depth):
        nonlocal nodes, nontriv, sample
        nodes += 1
        sub = t._verif_sub
        for b in compare_weighted(t, obs):
            viols.append(("getter:" + b[0], list(hist), b))
        if sub is not None and sub.bad:
            viols.append(("published-value", list(hist), sub.bad[0]))
            del sub.bad[:]
        if len(obs) >= 2:
            nontriv += 1
        if depth <= 2:
            before = snapshot(t)
            for bw, bv in BADW:
                c = copy.deepcopy(t)
                try:
                    feed_w(c, variant, bw, bv)
                    viols.append(("invalid-accepted", list(hist),
                                  repr((bw, bv))))
                except Exception:  # noqa
                    pass
                if not all(same(x, y) for x, y in zip(before, snapshot(c))):
                    viols.append(("rejected-input-changed-state", list(hist),
                                  repr((bw, bv))))
        if depth == L:
            if sample is None and len(obs) >= 3:
                sample = {"variant": variant, "history": list(hist),
                          "getters": common.jsonable(snapshot(t))}
            return
        for op in ops:
            if len(viols) > 200:
                return
            c = copy.deepcopy(t)
            try:
                if op == "init":
                    c.initialize()
                    obs2 = []
                else:
                    feed_w(c, variant, op[0], op[1])
                    obs2 = obs + [conv(op)]
            except Exception as ex:  # noqa
                viols.append(("operation-raised", list(hist) + [op],
                              "%s: %s" % (type(ex).__name__, ex)))
                continue
            visit(c, obs2, hist + [op], depth + 1)
    t = make("w", variant)
    try:
        if first == "init":
            t.initialize()
            obs = []
        else:
            feed_w(t, variant, first[0], first[1])
            obs = [conv(first)]
        visit(t, obs, [first], 1)
    except Exception as ex:  # noqa
        viols.append(("operation-raised", [first],
                      "%s: %s" % (type(ex).__name__, ex)))
    return dict(variant=variant, nodes=nodes, nontrivial=nontriv,
                viols=viols[:200], sample=sample)


# ---------------------------------------------------------------- timestamps
TS = [0, 1, 1, 2.5, 4]
TV = [0, 1, 3]


def ts_getters(t):
    out = []
    for name, f in WG + [("active", lambda t: t.isactive())]:
        try:
            out.append(f(t))
        except Exception as ex:  # noqa
            out.append(("raised", type(ex).__name__))
    return out


def check_ts_history(variant, ts, vals, tend, reinit):
    """one timestamp history: feed, (optionally) close, use after closing,
    earlier timestamp, re-initialise; returns disagreements"""
    bad = []
    t = make("t", variant)
    sub = t._verif_sub

    def integral(pts, end):
        p = pts + [(end, 0)]
        return sum(Fr(v0) * (Fr(t1) - Fr(t0))
                   for (t0, v0), (t1, _) in zip(p, p[1:]))
    rounds = 2 if reinit else 1
    for rnd in range(rounds):
        if rnd == 1:
            t.initialize()
        pts = []
        for a, b in zip(ts, vals):
            try:
                feed_t(t, variant, a, b)
            except Exception as ex:  # noqa
                return [("operation-raised", (a, b), type(ex).__name__)]
            pts.append((a, b))
            g = ts_getters(t)
            if any(isinstance(x, tuple) for x in g):
                bad.append(("query-raised", pts[:], g))
            # running integral up to the last timestamp
            integ = integral(pts[:-1], pts[-1][0])
            span = Fr(pts[-1][0]) - Fr(pts[0][0])
            if abs(t.weighted_sum() - float(integ)) > 1e-12:
                bad.append(("running-integral", pts[:], t.weighted_sum(),
                            float(integ)))
            if span > 0 and abs(t.weighted_mean() - float(integ / span)) \
                    > 1e-12:
                bad.append(("running-mean", pts[:], t.weighted_mean(),
                            float(integ / span)))
        # an earlier timestamp is rejected and changes nothing - neither what
        # is reported now nor what is reported after further observations
        before = ts_getters(t)
        # a refused closing (end time before the last timestamp) closes
        # nothing: the tally goes on exactly like a twin that never saw it
        if len(ts) <= 3:
            c = copy.deepcopy(t)
            twin = copy.deepcopy(t)
            try:
                if variant == "duration":
                    from pydsol.core.units import Duration
                    c.end_observations(Duration(float(ts[-1] - 0.5), "s"))
                else:
                    c.end_observations(ts[-1] - 0.5)
                bad.append(("closing-before-the-last-timestamp-accepted", ts))
            except ValueError:
                pass
            except Exception as ex:  # noqa
                bad.append(("closing-before-the-last-timestamp-wrong-"
                            "exception", ts, type(ex).__name__))
            try:
                for obj in (c, twin):
                    feed_t(obj, variant, ts[-1] + 2, 5)
                    if variant == "duration":
                        from pydsol.core.units import Duration
                        obj.end_observations(Duration(float(ts[-1] + 3), "s"))
                    else:
                        obj.end_observations(ts[-1] + 3)
                if not all(same(x, y) for x, y in zip(ts_getters(twin),
                                                      ts_getters(c))):
                    bad.append(("refused-closing-changed-later-results", ts,
                                ts_getters(c), ts_getters(twin)))
            except Exception as ex:  # noqa
                bad.append(("continuation-after-refused-closing-raised", ts,
                            type(ex).__name__))
        for early in (ts[-1] - 0.5, ts[0] - 1, math.nan):
            c = copy.deepcopy(t)
            twin = copy.deepcopy(t) if (early == ts[-1] - 0.5
                                        and len(ts) <= 3) else None
            try:
                feed_t(c, variant, early, 1000)
                bad.append(("earlier-timestamp-accepted", ts, early))
            except ValueError:
                pass
            except Exception as ex:  # noqa
                bad.append(("earlier-timestamp-wrong-exception", ts, early,
                            type(ex).__name__))
            if not all(same(x, y) for x, y in zip(before, ts_getters(c))):
                bad.append(("rejected-timestamp-changed-state", ts, early))
            if early != ts[-1] - 0.5 or len(ts) > 3:
                continue          # the continuation for one rejection only
            try:
                for obj in (c, twin):
                    feed_t(obj, variant, ts[-1] + 2, 5)
                    if variant == "duration":
                        from pydsol.core.units import Duration
                        obj.end_observations(Duration(float(ts[-1] + 3), "s"))
                    else:
                        obj.end_observations(ts[-1] + 3)
                if not all(same(x, y) for x, y in zip(ts_getters(twin),
                                                      ts_getters(c))):
                    bad.append(("rejected-timestamp-changed-later-results",
                                ts, early, ts_getters(c), ts_getters(twin)))
            except Exception as ex:  # noqa
                bad.append(("continuation-after-rejection-raised", ts, early,
                            type(ex).__name__))
        c = copy.deepcopy(t)
        try:
            c.end_observations(ts[-1] - 0.5)
            bad.append(("earlier-end-accepted", ts))
        except ValueError:
            pass
        except Exception as ex:  # noqa
            bad.append(("earlier-end-wrong-exception", ts,
                        type(ex).__name__))
        if tend is None:
            continue
        try:
            if variant == "duration":
                from pydsol.core.units import Duration
                t.end_observations(Duration(float(tend), "s"))
            else:
                t.end_observations(tend)
        except Exception as ex:  # noqa
            return bad + [("end_observations-raised", ts, tend,
                           type(ex).__name__)]
        integ = integral(pts, tend)
        span = Fr(tend) - Fr(ts[0])
        g = ts_getters(t)
        if any(isinstance(x, tuple) for x in g):
            bad.append(("query-raised-after-close", ts, g))
        if abs(t.weighted_sum() - float(integ)) > 1e-12:
            bad.append(("integral", list(zip(ts, vals)), tend,
                        t.weighted_sum(), float(integ)))
        if span > 0:
            if abs(t.weighted_mean() - float(integ / span)) > 1e-12:
                bad.append(("time-average", list(zip(ts, vals)), tend,
                            t.weighted_mean(), float(integ / span)))
        if t.isactive():
            bad.append(("still-active-after-close", ts, tend))
        # observations after closing are ignored
        before = ts_getters(t)
        for a, b in ((tend + 1, 7), (tend + 1, 9), (tend + 2, -4),
                     (tend, 5)):
            try:
                feed_t(t, variant, a, b)
            except Exception:  # noqa   (rejecting is as good as ignoring)
                pass
        try:
            t.end_observations(tend + 3)
        except Exception:  # noqa
            pass
        after = ts_getters(t)
        if not all(same(x, y) for x, y in zip(before, after)):
            bad.append(("changed-after-close", list(zip(ts, vals)), tend,
                        before, after))
    if sub is not None and sub.bad:
        bad.append(("published-value", ts, sub.bad[0]))
    return bad


def ts_worker(task):
    variant, k, reinit, first = task
    n = 0
    viols = []
    sample = None
    for idx in itertools.combinations_with_replacement(range(len(TS)), k):
        if idx[0] != first:
            continue
        ts = [TS[i] for i in idx]
        for vals in itertools.product(TV, repeat=k):
            for tend in (None, ts[-1], ts[-1] + 1.5):
                n += 1
                bad = check_ts_history(variant, ts, list(vals), tend, reinit)
                if sample is None and k >= 3 and tend is not None:
                    sample = {"variant": variant, "timestamps": ts,
                              "values": list(vals), "end": tend}
                for b in bad:
                    viols.append((b[0], {"variant": variant, "ts": ts,
                                         "vals": list(vals), "tend": tend,
                                         "reinit": reinit}, b))
                if len(viols) > 200:
                    return dict(variant=variant, n=n, viols=viols,
                                sample=sample)
    return dict(variant=variant, n=n, viols=viols, sample=sample)


LONG_W = {
    "unit weights, values 1..n": lambda i: (1, i + 1),
    "weights 1,2,0,3 cycling, ramp": lambda i: ((1, 2, 0, 3)[i % 4],
                                                 0.5 * i),
    "weight 0.5, constant 3.25": lambda i: (0.5, 3.25),
    "weights i+1, alternating +-1": lambda i: (i + 1, (-1) ** i),
    "every third weight zero, values i*i": lambda i: (0 if i % 3 == 2
                                                      else 1.5, i * i),
    "fractions 1/3, 0.1": lambda i: (1 / 3, 0.1 * (i % 7)),
}


def long_worker(task):
    """long deterministic series, checked after EVERY observation up to 70
    and at marks beyond: nothing may change with the number of observations
    made so far; with a re-initialisation at position r"""
    variant, name, N = task
    f = LONG_W[name]
    n = 0
    viols = []
    marks = set(range(1, 71)) | {100, 128, 129, 200, 500}
    for reinit_at in (None, 5, 16, 17, 33):
        t = make("w", variant)
        obs = []
        for i in range(N):
            if reinit_at == i:
                t.initialize()
                obs = []
            w, v = f(i)
            try:
                feed_w(t, variant, w, v)
            except Exception as ex:  # noqa
                viols.append(("operation-raised", [name, i, reinit_at],
                              "%s: %s" % (type(ex).__name__, ex)))
                break
            obs.append((w, v))
            if len(obs) in marks:
                n += 1
                bad = compare_weighted(t, obs)
                if bad:
                    viols.append(("long:" + bad[0][0],
                                  [name, len(obs), reinit_at], bad[0]))
                    break
        s_ = getattr(t, "_verif_sub", None)
        if s_ is not None and s_.bad:
            viols.append(("published-value", [name, reinit_at], s_.bad[0]))
    # the timestamped variant: n intervals, closed
    for k in (list(range(1, 49)) + [64, 65, 100] if N > 100
              else list(range(1, 41))):
        ts = [0.5 * i for i in range(k)]
        vals = [f(i)[1] for i in range(k)]
        for tend in (ts[-1], ts[-1] + 1.5):
            n += 1
            tv = "plain" if variant == "plain" else variant
            bad = check_ts_history(tv, ts, vals, tend, False)
            if bad:
                viols.append(("long-ts:" + str(bad[0][0]),
                              [name, k, tend], bad[0]))
                break
    return n, viols, variant, name


def reinit_listener_check():
    """a subscriber that reacts to the 'initialized' notification by
    registering the current value of its signal again: that observation
    belongs to the new period (it is made after the initialisation)"""
    from pydsol.core import statistics as S
    from pydsol.core.pubsub import EventListener
    from pydsol.core.interfaces import StatEvents
    bad = []
    n = 0
    for before in ([], [(1.0, 3.0)], [(2.0, 1.0), (0.0, 9.0), (1.5, 4.0)]):
        for times in (1, 2):
            n += 1
            t = S.EventBasedWeightedTally("w")

            class Again(EventListener):
                def notify(self_, e):
                    t.register(2.0, 6.0)
            t.add_listener(StatEvents.INITIALIZED_EVENT, Again())
            for w, v in before:
                t.register(w, v)
            for _ in range(times):
                t.initialize()
            t.register(1.0, 3.0)
            got = (t.n(), t.weighted_sum(), t.weighted_mean(), t.min(),
                   t.max())
            want = (2, 15.0, 5.0, 3.0, 6.0)
            if got != want:
                bad.append(("observation-made-on-initialized-notification-"
                            "lost:weighted", before, times, got, want))
            n += 1
            p = S.EventBasedTimestampWeightedTally("p")

            class AgainT(EventListener):
                def notify(self_, e):
                    p.register(10.0, 6.0)
            p.add_listener(StatEvents.INITIALIZED_EVENT, AgainT())
            for i, (w, v) in enumerate(before):
                p.register(float(i), v)
            for _ in range(times):
                p.initialize()
            p.register(15.0, 1.0)
            p.end_observations(20.0)
            got = (p.weighted_sum(), p.weighted_mean())
            want = (35.0, 3.5)
            if got != want:
                bad.append(("observation-made-on-initialized-notification-"
                            "lost:timestamped", before, times, got, want))
    return n, bad


XW = [0.0, 5e-324, 1e-310, 1e-162, 1.0, 1e150, 1e300]
XV = [0.0, 5e-324, 1e-162, 1e-110, 1.0, -1e150, 1e150, 1e308]


def extreme_worker(first):
    """sequences over weights / values / time spans whose products and
    quotients underflow or overflow: no registration and no query may raise,
    n / min / max stay exact, a variance is not negative, and a mean of
    finite observations with a positive total weight is not NaN"""
    from pydsol.core import statistics as S
    n = 0
    viols = []
    pairs = [(w, v) for w in XW for v in XV]
    for k in (0, 1, 2):
        rests = itertools.product(pairs, repeat=k) if k < 2 else \
            itertools.product(pairs[::3], repeat=2)
        for rest in rests:
            seq = (first,) + tuple(rest)
            for variant in ("plain", "event"):
                n += 1
                t = make("w", variant)
                t = t[0] if isinstance(t, tuple) else t
                try:
                    for w, v in seq:
                        t.register(w, v)
                except Exception as ex:  # noqa
                    viols.append(("extreme:register-raised:"
                                  + type(ex).__name__, [list(x) for x in seq],
                                  variant))
                    continue
                snap = dict(zip([g[0] for g in WG], snapshot(t)))
                for g, v in snap.items():
                    if isinstance(v, tuple) and v and v[0] == "raised":
                        viols.append(("extreme:getter-raised:%s:%s" % (g,
                                                                        v[1]),
                                      [list(x) for x in seq], variant))
                    elif g.startswith(("wvar", "wsd")) and \
                            isinstance(v, float) and v < 0:
                        viols.append(("extreme:negative-variance:%s" % g,
                                      [list(x) for x in seq], variant, v))
                vs = [v for _, v in seq]
                if snap["n"] != len(seq) or snap["min"] != min(vs) or \
                        snap["max"] != max(vs):
                    viols.append(("extreme:n-min-max",
                                  [list(x) for x in seq], variant))
                tot = sum(w for w, _ in seq)
                if tot > 0 and math.isfinite(tot) and \
                        isinstance(snap["wmean"], float) and \
                        math.isnan(snap["wmean"]) and all(
                            abs(v) <= 1e150 for v in vs):
                    viols.append(("extreme:mean-is-nan",
                                  [list(x) for x in seq], variant))
    # the timestamped variant over tiny and huge time steps
    for steps in itertools.product([5e-324, 1e-310, 1e-162, 1.0, 1e150],
                                   repeat=2):
        for vals in itertools.product(XV[:6], repeat=2):
            n += 1
            t = S.TimestampWeightedTally("x")
            try:
                t.register(0.0, first[1])
                ts = 0.0
                for st, v in zip(steps, vals):
                    ts += st
                    t.register(ts, v)
                t.end_observations(ts + steps[0])
                for g in (t.weighted_mean, t.weighted_sum,
                          t.weighted_variance, t.weighted_stdev):
                    r = g()
                if math.isnan(t.weighted_mean()) and \
                        abs(first[1]) <= 1e150:
                    viols.append(("extreme:time-average-is-nan",
                                  [first[1]] + list(vals), list(steps)))
            except Exception as ex:  # noqa
                viols.append(("extreme:timestamped-raised:"
                              + type(ex).__name__, [first[1]] + list(vals),
                              list(steps)))
    return n, viols[:60]


def run(ctx):
    quick = ctx.tier == "quick"
    L = 3 if quick else 4
    firsts = [(w, v) for w in W for v in V] + ["init"]
    tasks = [(v, f, L) for v in ("plain", "event", "notify") for f in firsts]
    nodes = nontriv = 0
    for r in common.pimap(weighted_dfs, tasks):
        nodes += r["nodes"]
        nontriv += r["nontrivial"]
        if r["sample"]:
            ctx.sample(r["sample"], limit=2)
        for v in r["viols"]:
            ctx.violation("C10:w:%s:%s" % (r["variant"], v[0]),
                          "WeightedTally (%s) after %s: %s" % (
                              r["variant"], v[1], v[2:]),
                          {"kind": "w", "variant": r["variant"],
                           "history": v[1]}, rank=len(v[1]))
    ctx.part("weighted histories", nodes=nodes, depth=L)
    nr, rbad = reinit_listener_check()
    for b in rbad:
        ctx.violation("C10:%s" % b[0], "event-based tally: %s" % (b,),
                      {"kind": "reinit"})
    ctx.part("re-announcing subscribers on initialize", cases=nr)
    nx = 0
    for n_, viols in common.pimap(extreme_worker,
                                  [(w, v) for w in XW for v in XV]):
        nx += n_
        for v in viols:
            ctx.violation("C10:%s" % v[0], "WeightedTally with extreme "
                          "weights/values %s: %s" % (v[1], v[2:]),
                          {"kind": "x", "first": v[1][0]
                           if v[1] and isinstance(v[1][0], list) else None},
                          rank=len(v[1]))
    ctx.part("extreme magnitudes (totality)", sequences=nx,
             weights=[repr(x) for x in XW], values=[repr(x) for x in XV])
    nodes += nx
    K = 4 if quick else 5
    ttasks = [(v, k, re, f) for v in ("plain", "event", "notify", "duration")
              for k in range(K, 0, -1) for re in (False, True)
              for f in range(len(TS))]
    nts = 0
    for r in common.pimap(ts_worker, ttasks):
        nts += r["n"]
        if r["sample"]:
            ctx.sample(r["sample"], limit=4)
        for kind, rep, b in r["viols"]:
            rep = dict(rep, kind="t")
            ctx.violation("C10:t:%s:%s" % (r["variant"], kind),
                          "TimestampWeightedTally (%s): %s" % (r["variant"],
                                                               b), rep,
                          rank=len(rep["ts"]))
    ctx.part("timestamp histories", histories=nts, max_len=K)
    nl = 0
    NL_ = 130 if quick else 520
    for n_, viols, variant, name in common.pimap(
            long_worker, [(v, nm, NL_) for v in ("plain", "event", "notify")
                          for nm in LONG_W]):
        nl += n_
        for v in viols[:3]:
            ctx.violation("C10:%s:%s" % (variant, v[0]),
                          "weighted tally (%s), series '%s' %s: %s" % (
                              variant, name, v[1], str(v[2])[:300]),
                          {"kind": "long", "variant": variant, "name": name,
                           "N": NL_})
    ctx.part("long series (every n up to 70, marks up to %d; 1..40 closed "
             "intervals)" % NL_, checkpoints=nl, series=list(LONG_W))
    nodes += nl
    ctx.coverage.update(
        evaluations=nodes + nts, distinct_nontrivial=nontriv + nts,
        rule="weighted: all histories of length <= %d over (weight in %s) x "
        "(value in %s) + initialize(), for WeightedTally, "
        "EventBasedWeightedTally with a subscriber and via "
        "notify(WEIGHT_DATA_EVENT); every getter after every op vs exact "
        "Fraction arithmetic over the positively weighted observations "
        "(M = number of non-zero weights), invalid inputs (negative/NaN/"
        "non-numeric weight or value) must raise and change nothing. "
        "timestamps: all non-decreasing timestamp sequences of length <= %d "
        "over %s (repeats included) x values %s x {not closed, closed at the "
        "last timestamp, closed later} x {fresh, after re-initialise}: "
        "running and final integral / time average exact, earlier timestamp "
        "-> ValueError without change, nothing changes after closing. "
        "non-trivial = >=2 observations." % (L, W, V, K, TS, TV))
    ctx.assumptions += [
        "weighted mean with total weight zero is unspecified (0.0 or NaN)",
        "time average over a zero span is unspecified (no raise demanded)",
        "n/min/max of the timestamp variant are not compared (docstring and "
        "code disagree; the property does not mention them)",
        "after closing, an observation may be ignored or rejected"]


def replay(data):
    if data.get("kind") == "reinit":
        return reinit_listener_check()[1] or None
    if data.get("kind") == "long":
        return long_worker((data["variant"], data["name"],
                            data["N"]))[1][:3] or None
    if data.get("kind") == "x":
        out = []
        for w in XW:
            for v in XV:
                out += extreme_worker((w, v))[1][:2]
        return out[:5] or None
    if data.get("kind") == "t":
        bad = check_ts_history(data["variant"], data["ts"], data["vals"],
                               data["tend"], data["reinit"])
        return bad or None
    variant = data["variant"]
    t = make("w", variant)
    obs = []
    for op in data["history"]:
        if op == "init":
            t.initialize()
            obs = []
        else:
            try:
                feed_w(t, variant, op[0], op[1])
            except Exception as ex:  # noqa
                return [("operation-raised", type(ex).__name__)]
            obs.append((float(op[0]), float(op[1])) if variant == "notify"
                       else tuple(op))
    return compare_weighted(t, obs) or None
