"""C12 - random streams: reproducible, resettable, restorable, independent,
in range.

All operation sequences up to a depth over next_float / next_bool /
next_int(range) / set_seed / reset / save_state / restore_state on a real
MersenneTwister, against a reference that is built only from *freshly
constructed* real streams (so no outside generator is trusted): reset and
set_seed must behave like a fresh stream with that seed, restore like a fresh
stream replayed to the save point; a second stream is interleaved at every
position (independence); every output is range-checked.
"""
import itertools

from vlib import common

LEVEL = "model_checking"

RANGES = [(0, 0), (0, 9), (-5, 5), (-3, -3), (0, 2 ** 62),
          (-2 ** 70, 2 ** 70), (0, 2 ** 1000), (2 ** 60 + 100, 2 ** 60 + 109),
          (0, 2 ** 1100), (-2 ** 2000, 2 ** 2000),
          (2 ** 53 + 1, 2 ** 53 + 1), (-2 ** 60 - 9, -2 ** 60)]
SEEDS = [0, 1, -1, 2 ** 64 + 3]
START_SEEDS = [101, 0, -7, 2 ** 70 + 1]


BAD_INT = [(0, None), ("1", 6), (0, [9]), (None, None), (2.5, "x")]


def alphabet():
    return ([("f",), ("b",)] + [("i", lo, hi) for lo, hi in RANGES]
            + [("badint", k) for k in range(len(BAD_INT))]
            + [("seed", s) for s in SEEDS]
            + [("reset",), ("save",), ("restore",)])


def draw(s, op):
    if op[0] == "f":
        return s.next_float()
    if op[0] == "b":
        return s.next_bool()
    return s.next_int(op[1], op[2])


def in_range(op, v):
    if op[0] == "f":
        return type(v) is float and 0.0 <= v < 1.0
    if op[0] == "b":
        return type(v) is bool
    return type(v) is int and op[1] <= v <= op[2]


class RefStream:
    """reference built on fresh real streams only"""

    def __init__(self, MT, seed):
        self.MT = MT
        self.gen_seed = seed
        self.gen = MT(seed)
        self.ops = []
        self.seedval = seed
        self.seed_known = True
        self.slot = None

    def apply(self, op):
        k = op[0]
        if k in ("f", "b", "i"):
            self.ops.append(op)
            return draw(self.gen, op)
        if k == "seed":
            self.gen_seed = self.seedval = op[1]
            self.gen = self.MT(op[1])
            self.ops = []
            self.seed_known = True
        elif k == "reset":
            self.gen_seed = self.seedval
            self.gen = self.MT(self.seedval)
            self.ops = []
        elif k == "save":
            self.slot = (self.gen_seed, list(self.ops))
        elif k == "restore":
            if self.slot is not None:
                self.gen_seed = self.slot[0]
                self.gen = self.MT(self.slot[0])
                self.ops = []
                for o in self.slot[1]:
                    self.ops.append(o)
                    draw(self.gen, o)
                # what seed() / reset() mean after restoring a state saved
                # under another seed is not documented
                if self.slot[0] != self.seedval:
                    self.seed_known = False
        return None


def run_real(MT, start, seq, other=None):
    # start None: the documented no-seed construction (the stream picks a
    # seed itself and reports it through seed())
    s = MT() if start is None else MT(start)
    run_real.first_seed = s.seed()
    out = []
    slot = None
    for op in seq:
        if other is not None:
            other.next_float()
            other.next_int(0, 5)
            other.next_bool()
        k = op[0]
        if k in ("f", "b", "i"):
            out.append(draw(s, op))
        elif k == "badint":
            # a request that has to be refused: the stream is not advanced
            lo, hi = BAD_INT[op[1]]
            try:
                out.append(("accepted", s.next_int(lo, hi)))
            except (TypeError, ValueError):
                out.append(None)
            except Exception as ex:  # noqa
                out.append(("raised", type(ex).__name__))
        elif k == "seed":
            s.set_seed(op[1])
            out.append(None)
        elif k == "reset":
            s.reset()
            out.append(None)
        elif k == "save":
            slot = s.save_state()
            out.append(None)
        elif k == "restore":
            if slot is not None:
                s.restore_state(slot)
            out.append(None)
    return out, s


def check_seq(MT, start, seq):
    bad = []
    try:
        a, sa = run_real(MT, start, seq)
    except Exception as ex:  # noqa
        return [("raised", type(ex).__name__, str(ex)[:80])]
    if start is None:
        start = run_real.first_seed
        if type(start) is not int:
            return [("unseeded-stream-reports-no-seed", start)]
    ref = RefStream(MT, start)
    for i, op in enumerate(seq):
        e = ref.apply(op)
        if op[0] == "badint" and a[i] is not None:
            bad.append(("ill-typed-range-not-refused", i, op, a[i]))
        if op[0] in ("f", "b", "i"):
            if not in_range(op, a[i]):
                bad.append(("out-of-range", i, op, a[i]))
            if a[i] != e or type(a[i]) is not type(e):
                bad.append(("sequence", i, op, a[i], e))
    if ref.seed_known and sa.seed() != ref.seedval:
        bad.append(("seed()", sa.seed(), ref.seedval))
    # twin: same ops on a second instance
    b, _ = run_real(MT, start, seq)
    if a != b:
        bad.append(("twin-differs", a, b))
    # independence: interleave another stream at every position
    c, _ = run_real(MT, start, seq, other=MT(55))
    if a != c:
        bad.append(("disturbed-by-other-stream", a, c))
    return bad


def block_stream_class():
    """a user subclass of the stream that keeps derived state: it serves
    floats from a buffer of four pre-drawn numbers and empties the buffer
    whenever it is (re)seeded; state saving includes the buffer"""
    from pydsol.core.streams import MersenneTwister

    class BlockStream(MersenneTwister):
        def __init__(self, seed=None):
            self._buf = []
            super().__init__(seed)

        def set_seed(self, seed):
            self._buf = []
            super().set_seed(seed)

        def next_float(self):
            if not self._buf:
                self._buf = [super(BlockStream, self).next_float()
                             for _ in range(4)]
            return self._buf.pop(0)

        def save_state(self):
            return (super().save_state(), list(self._buf))

        def restore_state(self, st):
            super().restore_state(st[0])
            self._buf = list(st[1])
    return BlockStream


def worker(task):
    first, L, starts = task[:3]
    from pydsol.core.streams import MersenneTwister as MT
    if len(task) > 3 and task[3] == "block":
        MT = block_stream_class()
    A = alphabet()
    n = 0
    viols = []
    sample = None
    outcomes = set()
    for k in range(0, L):
        for rest in itertools.product(A, repeat=k):
            seq = (first,) + rest
            # undocumented corner: reset after restoring a foreign-seed state
            if skip(seq):
                continue
            for start in starts:
                n += 1
                bad = check_seq(MT, start, seq)
                if sample is None and k == L - 1:
                    sample = {"start_seed": start, "ops": list(seq)}
                for b in bad:
                    viols.append((b[0], {"start": start, "ops": list(seq),
                                         "cls": task[3] if len(task) > 3
                                         else "plain"}, b))
                    if len(viols) > 300:
                        return dict(n=n, viols=viols, sample=sample)
    return dict(n=n, viols=viols, sample=sample)


def skip(seq):
    """sequences that reach the undocumented corner: a state saved under one
    seed is restored under another seed and then reset() is called"""
    seedv = "start"
    slot_seed = None
    foreign = False
    for op in seq:
        if op[0] == "seed":
            seedv = op[1]
            foreign = False
        elif op[0] == "save":
            slot_seed = seedv if not foreign else "foreign"
        elif op[0] == "restore" and slot_seed is not None:
            if slot_seed != seedv:
                foreign = True
        elif op[0] == "reset":
            if foreign:
                return True
    return False


def double_restore_family():
    """structured longer histories: draws, save, draws, restore, draws,
    restore (the same saved state a second time, also into another stream
    object), draws - all combinations of short draw blocks"""
    from pydsol.core.streams import MersenneTwister as MT
    D = [("f",), ("b",), ("i", 0, 9)]
    blocks1 = [(a,) for a in D] + [(a, b) for a in D for b in D]
    blocks0 = [()] + blocks1
    n = 0
    bad = []
    for pre in blocks1:
        for mid in blocks0:
            for post1 in blocks1:
                for post2 in blocks1:
                    seq = pre + (("save",),) + mid + (("restore",),) + \
                        post1 + (("restore",),) + post2
                    n += 1
                    for b in check_seq(MT, 101, seq):
                        bad.append(("double-restore:" + b[0], list(seq), b))
                    # the same saved state restored into another stream
                    x = MT(101)
                    for op in pre:
                        draw(x, op)
                    st = x.save_state()
                    want = [draw(x, op) for op in post1 + post2]
                    y = MT(7)
                    z = MT(9)
                    try:
                        y.restore_state(st)
                        got1 = [draw(y, op) for op in post1]
                        z.restore_state(st)
                        got_z = [draw(z, op) for op in post1 + post2]
                        got1 += [draw(y, op) for op in post2]
                    except Exception as ex:  # noqa
                        bad.append(("restore-into-other-stream-raised",
                                    list(seq), type(ex).__name__))
                        continue
                    if got1 != want or got_z != want:
                        bad.append(("restore-into-other-stream", list(seq),
                                    (got1, got_z, want)))
                    if len(bad) > 200:
                        return n, bad
    return n, bad


def copies_family():
    """a deep copy / an unpickled copy of a stream is another stream: it
    continues exactly where the original stood, and from then on the two do
    not influence each other (draws, re-seeding, reset, restore)"""
    import copy
    import pickle
    from pydsol.core.streams import MersenneTwister as MT, StreamInformation
    D = [("f",), ("b",), ("i", 0, 9), ("i", -3, 2 ** 40)]
    blocks = [()] + [(a,) for a in D] + [(a, b) for a in D for b in D]
    n = 0
    bad = []

    def dup(how, s):
        if how == "deepcopy":
            return copy.deepcopy(s)
        if how == "pickle":
            return pickle.loads(pickle.dumps(s))
        if how == "via-info":
            info = StreamInformation()
            info.add_stream("mine", s)
            return copy.deepcopy(info).get_stream("mine")
        raise ValueError(how)
    for how in ("deepcopy", "pickle", "via-info"):
        for pre in blocks:
            for mid in blocks[1:]:
                for after in ("draw", "reset", "set_seed", "restore"):
                    n += 1
                    ref = MT(4711)
                    s = MT(4711)
                    for op in pre:
                        draw(ref, op)
                        draw(s, op)
                    try:
                        c_ = dup(how, s)
                    except Exception as ex:  # noqa
                        bad.append(("copy-raised", how, type(ex).__name__))
                        break
                    st = s.save_state()
                    want = [draw(ref, op) for op in mid + mid]
                    try:
                        got_c = [draw(c_, op) for op in mid]   # copy first
                        if after == "reset":
                            c_.reset()
                        elif after == "set_seed":
                            c_.set_seed(99)
                        elif after == "restore":
                            c_.restore_state(st)
                        got_s = [draw(s, op) for op in mid + mid]
                    except Exception as ex:  # noqa
                        bad.append(("copy-use-raised", how, list(pre),
                                    type(ex).__name__))
                        continue
                    if got_c != want[:len(mid)]:
                        bad.append(("copy-does-not-continue-the-sequence", how,
                                    list(pre), list(mid), got_c,
                                    want[:len(mid)]))
                    if got_s != want:
                        bad.append(("original-disturbed-by-its-copy", how,
                                    after, list(pre), list(mid), got_s, want))
                    # the copy after reset / re-seed / restore
                    try:
                        got2 = [draw(c_, op) for op in mid]
                    except Exception as ex:  # noqa
                        bad.append(("copy-use-raised", how, after,
                                    type(ex).__name__))
                        continue
                    if after == "reset":
                        f = MT(4711)
                    elif after == "set_seed":
                        f = MT(99)
                    else:
                        f = None
                    if f is not None:
                        exp2 = [draw(f, op) for op in mid]
                    elif after == "restore":
                        exp2 = want[:len(mid)]
                    else:
                        exp2 = want[len(mid):]
                    if got2 != exp2:
                        bad.append(("copy-after-" + after, how, list(pre),
                                    list(mid), got2, exp2))
                    if len(bad) > 100:
                        return n, bad
    return n, bad


def many_seeds_family():
    """dozens of distinct seeds in one process - on fresh stream objects and
    on ONE long-lived object - never change what a seed stands for"""
    from pydsol.core.streams import MersenneTwister as MT
    OPS = [("f",), ("i", 0, 9), ("b",), ("f",), ("i", -5, 2 ** 50)]
    n = 0
    bad = []
    S0 = [7, 0, -3, 2 ** 40 + 1]
    base = {}
    for s0 in S0:
        x = MT(s0)
        base[s0] = [draw(x, op) for op in OPS]
    old = {s0: MT(s0) for s0 in S0}
    longlived = MT(S0[0])
    made = 0
    for K in range(1, 49):
        # K-th other seed, on a fresh object and on the long-lived one
        other = 100000 + 17 * K
        y = MT(other)
        oy = [draw(y, op) for op in OPS]
        longlived.set_seed(other)
        ol = [draw(longlived, op) for op in OPS]
        made += 1
        n += 1
        if ol != oy:
            bad.append(("set_seed-differs-from-fresh-stream", K, other))
        longlived.reset()
        if [draw(longlived, op) for op in OPS] != oy:
            bad.append(("reset-differs-from-fresh-stream", K, other))
        for s0 in S0:
            n += 1
            f = MT(s0)
            got = [draw(f, op) for op in OPS]
            if got != base[s0]:
                bad.append(("fresh-stream-depends-on-seeds-used-before", s0,
                            K, got, base[s0]))
            o = old[s0]
            o.reset()
            if [draw(o, op) for op in OPS] != base[s0]:
                bad.append(("reset-depends-on-seeds-used-before", s0, K))
            if o.original_seed() != s0 or o.seed() != s0:
                bad.append(("seed-report", s0, K, o.original_seed(),
                            o.seed()))
        n += 1
        ll = MT(3)
        for j in range(K):
            ll.set_seed(500 + j)
            draw(ll, ("f",))
        ll.set_seed(S0[0])
        if [draw(ll, op) for op in OPS] != base[S0[0]]:
            bad.append(("set_seed-after-many-re-seeds", K))
        if ll.original_seed() != 3:
            bad.append(("original-seed-lost-after-re-seeds", K,
                        ll.original_seed()))
        if len(bad) > 60:
            break
    return n, bad


def default_streams():
    """the 'default' stream every StreamInformation creates for itself: each
    instance owns one, all start from the same documented seed, and using or
    re-seeding one leaves the others alone"""
    from pydsol.core.streams import (StreamInformation, StreamSeedInformation,
                                     MersenneTwister)
    bad = []
    n = 0
    OPS = [("f",), ("i", -5, 5), ("b",), ("i", 0, 2 ** 62), ("f",)]
    for cls_a in (StreamInformation, StreamSeedInformation):
        for cls_b in (StreamInformation, StreamSeedInformation):
            for disturb in ("draw", "set_seed", "reset", "nothing"):
                n += 1
                a = cls_a()
                sa = a.get_stream("default")
                first = [draw(sa, op) for op in OPS]
                seed0 = sa.original_seed()
                if disturb == "draw":
                    [draw(sa, op) for op in OPS]
                elif disturb == "set_seed":
                    sa.set_seed(4711)
                elif disturb == "reset":
                    sa.reset()
                b = cls_b()
                sb = b.get_stream("default")
                got = [draw(sb, op) for op in OPS]
                sf = MersenneTwister(seed0)
                fresh = [draw(sf, op) for op in OPS]
                if sb is sa:
                    bad.append(("default-stream-shared", cls_a.__name__,
                                cls_b.__name__))
                elif got != first or got != fresh:
                    bad.append(("default-stream-depends-on-earlier-instances",
                                cls_a.__name__, cls_b.__name__, disturb, got,
                                first))
    return n, bad


def scripted_range():
    """own the uniform: replace the wrapped generator by a scripted one (only
    if the documented wrapping attribute exists)"""
    from pydsol.core.streams import MersenneTwister as MT
    s = MT(1)
    if not hasattr(s, "_random") or not hasattr(s._random, "random"):
        return 0, [], False

    import random as _random

    class Scripted(_random.Random):
        """a real random.Random whose random() is scripted; everything else
        (getrandbits, state handling) keeps working"""

        def __init__(self, u):
            super().__init__(12345)
            self.u = u

        def random(self):
            return self.u
    n = 0
    bad = []
    ranges = RANGES + [(0, 2 ** 53 + 2), (0, 2 ** 54 + 5), (0, 2 ** 64),
                       (-2 ** 63, 2 ** 63 - 1), (1, 6), (-1, 0),
                       (7, 2 ** 53 + 9), (-2 ** 1000, 2 ** 10)]
    us = [0.0, 2.0 ** -1074, 2.0 ** -53, 0.25, 0.5, 0.75, 1 - 2.0 ** -53,
          1 - 2.0 ** -52, 1 / 3, 2 / 3]
    for lo, hi in ranges:
        for u in us:
            n += 1
            s._random = Scripted(u)
            try:
                v = s.next_int(lo, hi)
            except Exception as ex:  # noqa
                bad.append(("next_int-raised", (lo, hi), u,
                            type(ex).__name__))
                continue
            if not (type(v) is int and lo <= v <= hi):
                bad.append(("next_int-out-of-range", (lo, hi), u, v))
    for u in us:
        n += 1
        s._random = Scripted(u)
        try:
            f = s.next_float()
            b = s.next_bool()
        except Exception as ex:  # noqa
            bad.append(("draw-raised", u, type(ex).__name__))
            continue
        if not (0.0 <= f < 1.0):
            bad.append(("next_float-out-of-range", u, f))
        if type(b) is not bool:
            bad.append(("next_bool-type", u))
    return n, bad, True


def run(ctx):
    quick = ctx.tier == "quick"
    L = 4 if quick else 5
    starts = START_SEEDS[:2] if quick else START_SEEDS
    if ctx.seed:
        starts = list(starts) + [1000003 * ctx.seed + 17]
    tasks = [(a, L, starts) for a in alphabet()]
    # a stream constructed without a seed is as reproducible (through the seed
    # it reports) as a seeded one
    tasks += [(a, L - 1, [None]) for a in alphabet()]
    # a user subclass with derived state (buffered floats)
    tasks += [(a, L - 1, [101, -7], "block") for a in alphabet()]
    total = 0
    for r in common.pimap(worker, tasks):
        total += r["n"]
        if r["sample"]:
            ctx.sample(r["sample"], limit=4)
        for kind, rep, b in r["viols"]:
            ctx.violation("C12:%s" % kind,
                          "stream seeded %s, ops %s: %s" % (
                              rep["start"], rep["ops"], b), rep,
                          rank=len(rep["ops"]))
    ctx.part("operation sequences", executed=total, depth=L,
             alphabet=len(alphabet()), start_seeds=len(starts))
    n, bad = double_restore_family()
    for b in bad:
        ctx.violation("C12:%s" % b[0], "stream seeded 101, ops %s: %s" % (
            b[1], b[2]), {"start": 101, "ops": b[1]}, rank=len(b[1]))
    ctx.part("double-restore histories (length 6-10)", sequences=n)
    total += n
    nd, bad = default_streams()
    for b in bad:
        ctx.violation("C12:%s" % b[0], "default streams: %s" % (b,),
                      {"default": True})
    ctx.part("default streams of stream-information objects", cases=nd)
    total += nd
    nc, bad = copies_family()
    for b in bad[:20]:
        ctx.violation("C12:%s:%s" % (b[0], b[1]), "copied stream: %s" % (
            str(b)[:400],), {"copies": True})
    ctx.part("deep copies / pickled copies at every position", cases=nc)
    nm, bad = many_seeds_family()
    for b in bad[:20]:
        ctx.violation("C12:%s" % b[0], "many seeds: %s" % (str(b)[:400],),
                      {"many_seeds": True})
    ctx.part("48 further distinct seeds (fresh objects and one long-lived "
             "object)", cases=nm)
    total += nc + nm
    n, bad, ok = scripted_range()
    ctx.part("scripted uniforms x ranges", cases=n, applied=ok,
             violations=len(bad))
    for b in bad:
        ctx.violation("C12:%s" % b[0], "scripted uniform: %s" % (b,),
                      {"scripted": True})
    ctx.coverage.update(
        states=total, transitions=total * L,
        traces_validated_against_impl=total,
        explanation="every sequence of <= %d ops over %d letters x %d start "
        "seeds is executed on a real MersenneTwister and on a reference built "
        "from freshly constructed real streams (set_seed/reset = fresh stream "
        "with that seed, restore = fresh stream replayed to the save point); "
        "outputs compared position by position; re-executed as a twin and "
        "with a second stream interleaved at every position; all outputs "
        "range-checked; plus scripted uniforms {0, 2^-1074, ..., 1-2^-53} x "
        "%d ranges" % (L, len(alphabet()), len(starts), len(RANGES) + 8))
    ctx.assumptions += [
        "seed()/reset() after restoring a state saved under a different seed "
        "is undocumented; those sequences are not explored",
        "ranges wider than 2^1000 overflow float and are outside the bound",
        "the scripted-uniform part needs the wrapped generator to be "
        "reachable as _random; otherwise it is skipped (reported)"]


def replay(data):
    if data.get("default"):
        return default_streams()[1][:3] or None
    if data.get("scripted"):
        n, bad, ok = scripted_range()
        return bad[:3] or None
    if data.get("copies"):
        return copies_family()[1][:3] or None
    if data.get("many_seeds"):
        return many_seeds_family()[1][:3] or None
    from pydsol.core.streams import MersenneTwister as MT
    if data.get("cls") == "block":
        MT = block_stream_class()
    seq = tuple(tuple(o) for o in data["ops"])
    return check_seq(MT, data["start"], seq) or None
