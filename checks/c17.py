"""C17 - unit conversion is faithful for every declared unit of every quantity.

Exhaustive table: 41 classes x all declared units x a value alphabet, in
forward and in reverse class order (shared caches), all unit pairs per class
for re-expression and same-type arithmetic, alias / base-unit / description
tables, compound units recomputed from their components, every advertised
public name, and 'import *' in a fresh interpreter.
"""
import math
import operator
import os
import re
import subprocess
import sys

from vlib import common

LEVEL = "exploration"
VALS = [0.0, 1.0, -2.5, 1e-3, 123456.789, 3, 1.6e-19, -1e-6 / 3, 2.5e-15,
        2e-05, 1e16, 1.2345678901234567e19, -3e20]


def table_worker(task):
    lo, hi, reverse = task
    import pydsol.core.units as U
    Q = list(U.QUANTITIES)
    order = Q[::-1] if reverse else Q
    sel = set(q.__name__ for q in Q[lo:hi])
    n = 0
    bad = []
    # touch every class first (in the chosen order) so that any cache shared
    # between classes is warm with *other* classes' units
    for q in order:
        for u in list(q._units)[:60]:
            try:
                x = q(1.0, u)
                x.displayvalue
                str(x)
            except Exception:  # noqa  (reported by the table below)
                pass
    for q in order:
        if q.__name__ not in sel:
            continue
        name = q.__name__
        units = dict(q._units)
        if units.get(q._baseunit) != 1.0:
            bad.append(("base-unit-factor", name, q._baseunit,
                        units.get(q._baseunit)))
        for u, f in units.items():
            if not isinstance(q._descriptions.get(u), str) or \
                    not q._descriptions.get(u):
                bad.append(("no-description", name, u))
            du = q._displayunits.get(u, u)
            if not isinstance(du, str):
                bad.append(("display-unit-not-text", name, u, repr(du)))
            elif du in units and units[du] != f:
                bad.append(("alias-factor", name, u, du, f, units[du]))
            for v in VALS:
                n += 1
                try:
                    x = q(v, u)
                except Exception as ex:  # noqa
                    bad.append(("construct-raised", name, u, v,
                                type(ex).__name__))
                    continue
                if x.si != v * f or float(x) != v * f:
                    bad.append(("si-value", name, u, v, x.si, v * f))
                # the same quantity with the unit given by keyword
                try:
                    xk = q(v, unit=u)
                    if xk.si != x.si or xk.unit != u or \
                            not (xk.displayvalue == x.displayvalue
                                 or x.displayvalue != x.displayvalue):
                        bad.append(("unit-given-by-keyword", name, u, v,
                                    xk.si, xk.unit))
                except Exception as ex:  # noqa
                    bad.append(("unit-given-by-keyword-raised", name, u,
                                type(ex).__name__))
                # a copy made through the constructor leaves the original
                # alone (its unit in particular) and has the same SI value
                try:
                    cp = q(x)
                    if x.unit != u or x.si != v * f or float(cp) != x.si \
                            or type(cp) is not q:
                        bad.append(("copy-construction", name, u, v, x.unit,
                                    float(cp)))
                except Exception as ex:  # noqa
                    bad.append(("copy-construction-raised", name, u,
                                type(ex).__name__))
                if x.unit != u:
                    bad.append(("unit", name, u, x.unit))
                dv = x.displayvalue
                if not (dv == v or math.isclose(dv, v, rel_tol=1e-12,
                                                abs_tol=0.0)):
                    bad.append(("display-value", name, u, v, dv))
                for fn in (str, repr):
                    try:
                        s = fn(x)
                        if not isinstance(s, str) or not s:
                            bad.append(("text-empty", name, u))
                        elif fn is str and dv == dv:
                            # "the chosen unit follows the value after a
                            # space": the text begins with the value
                            try:
                                tv = float(s.split(" ")[0])
                            except ValueError:
                                tv = None
                            if tv is None or not math.isclose(
                                    tv, dv, rel_tol=1e-9, abs_tol=0.0):
                                bad.append(("text-does-not-show-the-value",
                                            name, u, v, s))
                    except Exception as ex:  # noqa
                        bad.append(("text-raised", name, u,
                                    type(ex).__name__))
                # unary ops keep the unit, act on SI
                try:
                    ng, ab = -x, abs(x)
                    if float(ng) != -(v * f) or float(ab) != abs(v * f) or \
                            ng.unit != u or ab.unit != u or \
                            type(ng) is not q or type(ab) is not q:
                        bad.append(("neg-abs", name, u, v))
                except Exception as ex:  # noqa
                    bad.append(("neg-abs-raised", name, u, type(ex).__name__))
        for k in q._displayunits:
            if k not in units:
                bad.append(("display-key-unknown", name, k))
        # re-expression and same-type arithmetic for unit pairs
        ulist = list(units)
        pairs_u2 = ulist if len(ulist) <= 12 else (ulist[:6] + ulist[-6:])
        for u in ulist:
            for v in (0.0, -2.5, 3):
                x = q(v, u)
                for u2 in ulist:
                    n += 1
                    try:
                        y = x.as_unit(u2)
                    except Exception as ex:  # noqa
                        bad.append(("as_unit-raised", name, u, u2,
                                    type(ex).__name__))
                        continue
                    if y.si != x.si or float(y) != float(x) or y.unit != u2 \
                            or type(y) is not q:
                        bad.append(("as_unit", name, u, u2, v, y.si, x.si))
                    else:
                        # unary ops on a re-expressed quantity: SI only
                        try:
                            a_, n_ = abs(y), -y
                            if a_.si != abs(y.si) or n_.si != -(y.si) or \
                                    a_.unit != u2 or n_.unit != u2 or \
                                    (y.si < 0 and not a_ == n_) or \
                                    (y.si >= 0 and not a_ == y):
                                bad.append(("neg-abs-after-as_unit", name, u,
                                            u2, v, a_.si, abs(y.si)))
                        except Exception as ex:  # noqa
                            bad.append(("neg-abs-after-as_unit-raised", name,
                                        u, u2, type(ex).__name__))
                for u2 in pairs_u2:
                    for v2 in (0.0, 1.0, 7):
                        n += 1
                        y = q(v2, u2)
                        xs, ys = float(x), float(y)
                        try:
                            a, s_ = x + y, x - y
                            ok = (float(a) == xs + ys and float(s_) == xs - ys
                                  and a.unit == u and s_.unit == u
                                  and type(a) is q and type(s_) is q)
                            if not ok:
                                bad.append(("add-sub", name, (v, u), (v2, u2),
                                            (float(a), a.unit),
                                            (xs + ys, u)))
                            elif abs(s_).si != abs(s_.si) or \
                                    (-a).si != -(a.si) or abs(s_).unit != u:
                                bad.append(("neg-abs-after-add-sub", name,
                                            (v, u), (v2, u2), abs(s_).si,
                                            abs(s_.si)))
                            for nm, op in (("<", operator.lt),
                                           ("<=", operator.le),
                                           (">", operator.gt),
                                           (">=", operator.ge),
                                           ("==", operator.eq),
                                           ("!=", operator.ne)):
                                if op(x, y) is not op(xs, ys):
                                    bad.append(("compare", name, nm, (v, u),
                                                (v2, u2)))
                        except Exception as ex:  # noqa
                            bad.append(("arith-raised", name, u, u2,
                                        type(ex).__name__))
        # running totals: each sum is the sum of the SI values of its operands,
        # also when the left operand is itself the result of earlier sums or
        # differences
        for u in pairs_u2:
            for step, u3 in ((0.1, u), (0.3, ulist[0]), (1.1, ulist[-1])):
                try:
                    t = q(0.0, u)
                    dt = q(step, u3)
                    for i in range(12):
                        n += 1
                        # (the operand is looked at in other units first, as a
                        # display would do)
                        for u4 in (ulist[0], ulist[-1]):
                            if t.as_unit(u4).si != t.si:
                                bad.append(("as_unit-of-a-running-total",
                                            name, u, u4, i, t.as_unit(u4).si,
                                            t.si))
                        t2 = t + dt if i % 4 != 3 else t - dt
                        want = t.si + dt.si if i % 4 != 3 else t.si - dt.si
                        twin = q(t.si, q._baseunit).as_unit(u)
                        tw2 = twin + dt if i % 4 != 3 else twin - dt
                        derived = [t2, -t2, abs(t2), t2 * 2, t2 / 2]
                        wants = [want, -want, abs(want), want * 2, want / 2]
                        for dq, dw in zip(derived, wants):
                            for u4 in (ulist[0], ulist[-1]):
                                got4 = dq.as_unit(u4)
                                if got4.si != dw or got4.unit != u4:
                                    bad.append((
                                        "as_unit-of-a-derived-quantity", name,
                                        u, u4, i, got4.si, dw))
                        if t2.si != want or tw2.si != want or t2.unit != u:
                            bad.append(("running-total", name, u, (step, u3),
                                        i, t2.si, want, tw2.si))
                            break
                        t = t2
                except Exception as ex:  # noqa
                    bad.append(("running-total-raised", name, u,
                                type(ex).__name__))
        # ordering against anything that is not a quantity of this type is
        # refused (also against a plain number, on either side)
        x0 = q(3.0, ulist[0])
        for other in (5.0, 2, True, math.inf, "3", None):
            for nm, op in (("<", operator.lt), ("<=", operator.le),
                           (">", operator.gt), (">=", operator.ge)):
                for left in (True, False):
                    n += 1
                    try:
                        r = op(x0, other) if left else op(other, x0)
                        bad.append(("ordering-with-a-non-quantity-accepted",
                                    name, nm, repr(other), left, r))
                    except TypeError:
                        pass
                    except Exception as ex:  # noqa
                        bad.append(("ordering-with-a-non-quantity-wrong-"
                                    "exception", name, nm, repr(other),
                                    type(ex).__name__))
        try:
            q(1.0, "no-such-unit")
            bad.append(("unknown-unit-accepted", name))
        except ValueError:
            pass
        except Exception as ex:  # noqa
            bad.append(("unknown-unit-wrong-exception", name,
                        type(ex).__name__))
    return n, bad[:300], len(sel)


RULES = [('Speed', 'Length', 'Duration', 1),
         ('Acceleration', 'Length', 'Duration', 2),
         ('FlowMass', 'Mass', 'Duration', 1),
         ('FlowVolume', 'Volume', 'Duration', 1),
         ('AngularVelocity', 'Angle', 'Duration', 1),
         ('AngularAcceleration', 'Angle', 'Duration', 2),
         ('Density', 'Mass', 'Volume', 1), ('Frequency', None, 'Duration', 1),
         ('LinearDensity', None, 'Length', 1)]


def compound_units():
    import pydsol.core.units as U
    Q = {q.__name__: q for q in U.QUANTITIES}

    def fac(qn, u):
        return Q[qn]._units.get(u)
    chk = 0
    bad = []
    skipped = 0
    for cls, num, den, pw in RULES:
        if cls not in Q:
            continue
        for u, f in Q[cls]._units.items():
            m = re.fullmatch(r'([^/]*)/([^/]+?)(\^?2)?(?:/([^/]+))?', u)
            if not m:
                skipped += 1
                continue
            a, b, sq, c = m.groups()
            if num is None:
                fa = 1.0 if a in ('1', '') else None
            else:
                fa = fac(num, a)
            if fa is None:
                skipped += 1
                continue
            dens = [b] + ([b] if sq else []) + ([c] if c else [])
            fd = 1.0
            ok = True
            for d in dens:
                x = fac(den, d)
                if x is None:
                    ok = False
                    break
                fd *= x
            if not ok or len(dens) != pw:
                skipped += 1
                continue
            chk += 1
            if not math.isclose(f, fa / fd, rel_tol=1e-12):
                bad.append(("compound-unit-factor", cls, u, f, fa / fd))
    for cls, base, pw in [('Area', 'Length', 2), ('Volume', 'Length', 3)]:
        for u, f in Q[cls]._units.items():
            m = re.fullmatch(r'(.+)\^(\d)', u)
            if not m or int(m.group(2)) != pw or fac(base, m.group(1)) is None:
                skipped += 1
                continue
            chk += 1
            if not math.isclose(f, fac(base, m.group(1)) ** pw,
                                rel_tol=1e-12):
                bad.append(("compound-unit-factor", cls, u, f,
                            fac(base, m.group(1)) ** pw))
    return chk, bad, skipped


def public_names():
    import pydsol.core.units as U
    bad = []
    names = list(getattr(U, "__all__", []))
    for nm in names:
        if not hasattr(U, nm):
            bad.append(("advertised-name-missing", nm))
    for q in U.QUANTITIES:
        for nm in (q.__name__, q.__name__ + "Dist"):
            if nm not in names:
                bad.append(("class-not-advertised", nm))
    env = dict(os.environ)
    p = subprocess.run(
        [sys.executable, "-W", "ignore", "-c",
         "from pydsol.core.units import *\n"
         "import pydsol.core.units as U\n"
         "missing=[n for n in U.__all__ if n not in globals()]\n"
         "print('MISSING', missing)\n"
         "x=Length(2.0,'km'); print(str(x), repr(Duration(3,'min')))"],
        env=env, capture_output=True, text=True, timeout=120)
    if p.returncode != 0 or "MISSING []" not in p.stdout:
        bad.append(("import-star-fails", (p.stdout + p.stderr)[-300:]))
    return len(names) + 1, bad


def quantity_dists():
    """the quantity-valued distribution wrappers draw in the given unit"""
    import pydsol.core.units as U
    from pydsol.core.distributions import DistConstant
    from pydsol.core.streams import MersenneTwister
    bad = []
    n = 0
    st = MersenneTwister(1)
    for q in U.QUANTITIES:
        dn = q.__name__ + "Dist"
        D = getattr(U, dn, None)
        if D is None:
            bad.append(("dist-wrapper-missing", dn))
            continue
        for u in list(q._units)[:4] + list(q._units)[-2:]:
            n += 1
            try:
                x = D(DistConstant(st, 2.5), u).draw()
            except Exception as ex:  # noqa
                bad.append(("dist-wrapper-raised", dn, u, type(ex).__name__))
                continue
            if type(x) is not q or x.unit != u or \
                    x.si != 2.5 * q._units[u]:
                bad.append(("dist-wrapper-value", dn, u, float(x)))
    return n, bad


def run(ctx):
    import pydsol.core.units as U
    nq = len(U.QUANTITIES)
    nunits = sum(len(q._units) for q in U.QUANTITIES)
    tasks = [(i, i + 1, rev) for rev in (False, True) for i in range(nq)]
    total = 0
    for n, bad, _ in common.pimap(table_worker, tasks):
        total += n
        for b in bad:
            ctx.violation("C17:%s:%s" % (b[0], b[1]),
                          "unit table: %s" % (b,), {"case": list(b)},
                          rank=len(str(b)))
    ctx.part("class x unit x value table (forward and reverse class order)",
             classes=nq, units=nunits, evaluations=total)
    chk, bad, skipped = compound_units()
    for b in bad:
        ctx.violation("C17:%s:%s:%s" % (b[0], b[1], b[2]),
                      "compound unit: %s" % (b,), {"case": list(b)})
    ctx.part("compound units recomputed from components", checked=chk,
             non_compositional_spellings_skipped=skipped)
    nn, bad = public_names()
    for b in bad:
        ctx.violation("C17:%s:%s" % (b[0], b[1] if len(b[1]) < 60 else ""),
                      "public names: %s" % (b,), {"case": list(b)})
    ctx.part("public names + import * in a fresh interpreter", names=nn)
    nd, bad = quantity_dists()
    for b in bad:
        ctx.violation("C17:%s:%s" % (b[0], b[1]), "dist wrapper: %s" % (b,),
                      {"case": list(b)})
    ctx.part("quantity distribution wrappers", evaluations=nd)
    ctx.sample({"class": "Length", "unit": "km", "value": -2.5,
                "expected_si": -2.5 * U.Length._units["km"]})
    ctx.sample({"compound": "Speed 'km/h' == Length 'km' / Duration 'h'"})
    ctx.coverage.update(
        evaluations=total + chk + nn + nd, distinct_nontrivial=nunits,
        rule="for each of the %d classes and each of its declared units (%d "
        "in total) and each value in %s: si == value*factor (bit-exact), "
        "unit, displayvalue (1e-12), str/repr, neg/abs; as_unit to every "
        "unit of the class keeps si bit-identical; add/sub/all six "
        "comparisons for unit pairs act on SI values and keep the left unit; "
        "descriptions, display aliases, base factor; every class processed "
        "after all other classes were used, in forward and reverse class "
        "order; compound spellings A/B, A/B2, A^n recomputed from the "
        "component classes; every name in __all__; import * in a fresh "
        "process. distinct_nontrivial = number of declared units."
        % (nq, nunits, VALS))
    ctx.assumptions += [
        "a display alias need not itself be a declared unit; if it is, its "
        "factor must equal the aliased unit's",
        "non-compositional spellings (kt, g, Hz, ...) are skipped in the "
        "compound-unit comparison (count reported)"]


def replay(data):
    import pydsol.core.units as U
    for rev in (False, True):
        n, bad, _ = table_worker((0, len(U.QUANTITIES), rev))
        if bad:
            return bad[:3]
    for f in (compound_units, public_names, quantity_dists):
        r = f()
        if r[1]:
            return r[1][:3]
    return None
