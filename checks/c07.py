"""C07 - end-to-end reproducibility: a run is a function of model, seeds and
settings.

One stochastic model with pub/sub fan-out (several listeners per type that
draw from a shared stream, schedule events, unsubscribe and re-subscribe at
run time; id-hashed and name-hashed listeners; many exact time ties) is run

 * in separate interpreter processes with different PYTHONHASHSEED values and
   different amounts of prior activity (SimEvents / EventTypes / garbage
   created before, so ids, counters and addresses differ, including event-id
   counters that cross 2^16 and 2^20 during the run),
 * inside each process under every pause pattern (uninterrupted, stepped all
   the way, stopped at event k for every k and resumed),
 * under the controlled scheduler with the driver only polling, for every
   schedule with at most one preemption (wall-clock speed independence).

All digests of one scenario must be identical.
"""
import hashlib
import json
import os
import subprocess
import sys

LEVEL = "exploration"
END = 9.0
WARM = 2.0


def build():
    from pydsol.core.model import DSOLModel
    from pydsol.core.streams import MersenneTwister, StreamInformation
    from pydsol.core.distributions import DistExponential, DistDiscreteUniform
    from pydsol.core.statistics import SimCounter, SimTally, SimPersistent
    from pydsol.core.pubsub import EventListener, EventProducer, EventType
    from pydsol.core.interfaces import (SimulatorInterface as S,
                                        ReplicationInterface as RI)
    ARR = EventType("C07_ARRIVAL_%d" % len(build.made))
    DEP = EventType("C07_DEPART_%d" % len(build.made))
    build.made.append(1)

    class Station(EventListener):
        """listener with order-dependent side effects"""

        def __init__(self, model, name, named_hash):
            self.m = model
            self.name = name
            self.named_hash = named_hash
            self.seen = 0

        def __hash__(self):
            return hash(self.name) if self.named_hash else id(self) >> 4

        def __eq__(self, other):
            return self is other

        def notify(self, e):
            m = self.m
            self.seen += 1
            u = m.stream.next_float()
            m.log.append((self.name, float(m.simulator.simulator_time).hex(),
                          u.hex()))
            if self.name == "S2":
                # schedules an event: delays on a 0.5 grid => many exact ties
                d = 0.5 * m.grid.draw()
                m.simulator.schedule_event_rel(d, m, "extra", 5, who="S2")
            if self.name == "S3" and self.seen % 3 == 0:
                # goes off shift; a model event brings it back
                m.bus.remove_listener(e.event_type, self)
                m.simulator.schedule_event_rel(1.0, m, "back", 5, who=self)
            if self.name == "S5" and self.seen == 2:
                m.bus.remove_all_listeners(listener=m.stations[0])
                m.simulator.schedule_event_rel(0.5, m, "back", 5,
                                               who=m.stations[0])

    class Late(EventListener):
        """subscribes to the clock notifications in the middle of a run and
        draws from the shared stream on each of them"""

        def __init__(self, model):
            self.m = model

        def notify(self, e):
            m = self.m
            u = m.stream.next_float()
            m.log.append(("late-tc", float(e.timestamp).hex(), u.hex()))
            if u < 0.25:
                # (absolute: during the notification the clock still shows
                # the previous event, or the bound of a pause)
                m.simulator.schedule_event_abs(e.timestamp + 0.5, m, "extra",
                                               5, who="tc")

    class Model(DSOLModel):
        def __init__(self, sim, nmax=None, late=False):
            super().__init__(sim)
            self.late = late
            self.stop_at = None
            self.nmax = nmax
            self.nh = 0

        def construct_model(self):
            sim = self.simulator
            self.nh = 0
            self.log = []
            self.stream = MersenneTwister(20240601)
            # the documented default stream and an explicitly zero-seeded one
            self.dflt = StreamInformation().get_stream("default")
            self.zero = MersenneTwister(0)
            self.ia = DistExponential(self.stream, 0.8)
            self.grid = DistDiscreteUniform(self.stream, 0, 3)
            self.bus = EventProducer()
            self.stations = [Station(self, "S%d" % i, i % 2 == 0)
                             for i in range(1, 7)]
            for st in self.stations:
                self.bus.add_listener(ARR, st)
            for st in self.stations[::2]:
                self.bus.add_listener(DEP, st)
            self.cnt = SimCounter("n", "n", sim)
            self.tal = SimTally("t", "t", sim)
            self.per = SimPersistent("q", "q", sim)
            self.q = 0
            sim.schedule_event_now(self, "arrive")
            # a burst of thirty simultaneous events early in the run: the
            # pause patterns below stop at every position inside it
            for k in range(30 if self.nmax is None else 0):
                sim.schedule_event_abs(0.25, self, "extra", 5,
                                       who="burst%d" % k)
            for k in range(3):           # equal time, equal priority: id order
                sim.schedule_event_abs(1.0, self, "extra", 5, who="init%d" % k)
            # events exactly at the end of the replication, and long-pending
            # events that tie with events created much later (see 'extra')
            for k in range(2):
                sim.schedule_event_abs(END, self, "extra", 5, who="end%d" % k)
            for tt in (2.0, 4.0, 6.0, 8.0):
                sim.schedule_event_abs(tt + 0.5, self, "extra", 5,
                                       who="old%g" % tt)
                sim.schedule_event_abs(tt, self, "extra", 5, who="mk%g" % tt)

        def hook(self, name):
            self.nh += 1
            if self.nh > 5000:
                raise RuntimeError("runaway")     # watchdog
            self.log.append((name, float(self.simulator.simulator_time).hex()))
            if self.stop_at is not None and self.nh == self.stop_at:
                self.stop_at = None
                self.simulator.stop()

        def arrive(self):
            self.hook("arrive")
            sim = self.simulator
            self.q += 1
            self.cnt.register(1)
            self.per.register(float(sim.simulator_time), self.q)
            self.bus.fire(ARR, self.q)
            if self.nmax is None or self.nh < self.nmax:
                sim.schedule_event_rel(self.ia.draw(), self, "arrive")
            sim.schedule_event_rel(0.5 * self.grid.draw(), self, "depart")

        def depart(self):
            self.hook("depart")
            self.q -= 1
            self.per.register(float(self.simulator.simulator_time), self.q)
            self.tal.register(self.stream.next_float())
            self.bus.fire(DEP, self.q)

        def extra(self, who):
            self.hook("extra:%s" % who)
            if who.startswith("mk"):
                # created now, same time and priority as the old one
                self.simulator.schedule_event_abs(
                    float(who[2:]) + 0.5, self, "extra", 5,
                    who="new" + who[2:])
            if who == "mk2":
                # created in the middle of the run, pending for a long time
                for tt in (4.5, 6.5, 8.5):
                    self.simulator.schedule_event_abs(tt, self, "extra", 5,
                                                      who="far%g" % tt)
            if self.late and who == "init1":
                # a monitor created by the model while the run is under way
                self.monitor = Late(self)
                self.simulator.add_listener(S.TIME_CHANGED_EVENT,
                                            self.monitor)
            self.tal.register(float(len(self.log) % 7)
                              + self.dflt.next_float()
                              + self.zero.next_float())

        def back(self, who):
            self.hook("back:%s" % who.name)
            self.bus.add_listener(ARR, who)

    class Rec(EventListener):
        NAMES = {S.STARTING_EVENT: "STARTING", S.START_EVENT: "START",
                 S.STOPPING_EVENT: "STOPPING", S.STOP_EVENT: "STOP",
                 S.TIME_CHANGED_EVENT: "TC",
                 RI.START_REPLICATION_EVENT: "START_REPLICATION",
                 RI.END_REPLICATION_EVENT: "END_REPLICATION",
                 RI.WARMUP_EVENT: "WARMUP"}

        def __init__(self):
            self.stream = []

        def notify(self, e):
            ts = getattr(e, "timestamp", None)
            self.stream.append([self.NAMES.get(e.event_type, "?"),
                                None if ts is None else float(ts).hex()])

        def subscribe(self, sim, tc=True):
            for et in self.NAMES:
                if tc or et is not S.TIME_CHANGED_EVENT:
                    sim.add_listener(et, self)
    return Model, Rec


build.made = []


def fh(x):
    return float(x).hex() if isinstance(x, float) else x


def digests(m, sim, rec):
    stats = [m.cnt.n(), m.cnt.count(), m.tal.n(), fh(m.tal.mean()),
             fh(m.tal.variance()), fh(m.tal.skewness()), m.per.n(),
             fh(m.per.weighted_mean()), fh(m.per.weighted_stdev()),
             fh(float(sim.simulator_time)), sim.run_state.name]
    full = [m.log, stats, rec.stream]
    repl = [x for x in rec.stream
            if x[0] in ("START_REPLICATION", "WARMUP", "END_REPLICATION")]
    reduced = [m.log, stats, repl]
    # plus the clock notifications: the same however the run was paused by
    # bounds or stop/start (step() notifies for every event, as documented)
    clock = reduced + [[x for x in rec.stream if x[0] == "TC"]]
    h = lambda o: hashlib.sha256(json.dumps(o).encode()).hexdigest()[:16]  # noqa
    return h(full), h(reduced), len(m.log), h(clock)


def run_pattern(pattern, s=None, nmax=None, late=False):
    """one replication under a pause pattern; returns (full, reduced, n)"""
    import time as _t
    from pydsol.core.simulator import DEVSSimulatorFloat
    from pydsol.core.experiment import SingleReplication
    from pydsol.core.utils import DSOLError
    Model, Rec = build()
    sim = DEVSSimulatorFloat("s")
    m = Model(sim, nmax, late)
    rec = Rec()
    sim.initialize(m, SingleReplication("r", 0.0, WARM, END))
    # in the 'late' family nobody listens to the clock when the run starts
    rec.subscribe(sim, tc=not late)

    def wait():
        if s is not None:
            s.wait_quiescent()
        else:
            n = 0
            while sim.is_starting_or_running() and n < 60000:
                _t.sleep(0.0005)
                n += 1
            _t.sleep(0.02)
    if pattern[0] == "step-all":
        for _ in range(100000):
            if sim.eventlist().is_empty() or \
                    sim.eventlist().peek_first().time > END:
                break
            sim.step()
    elif pattern[0] == "stop-at":
        m.stop_at = pattern[1]
    elif pattern[0] == "upto":
        sim.run_up_to(pattern[1])
        wait()
    elif pattern[0] == "other-sim":
        # while this run is paused, an unrelated model is set up and run to
        # its end on another simulator in the same process
        sim.run_up_to(pattern[1])
        wait()
        from pydsol.core.model import DSOLModel

        class Tiny(DSOLModel):
            def construct_model(self):
                self.simulator.schedule_event_abs(1.0, self, "tick")

            def tick(self):
                pass
        sim2 = DEVSSimulatorFloat("other")
        m2 = Tiny(sim2)
        sim2.initialize(m2, SingleReplication("r2", 0.0, 0.0, 4.0))
        sim2.start()
        n2 = 0
        while s is None and sim2.is_starting_or_running() and n2 < 60000:
            _t.sleep(0.0005)
            n2 += 1
        if s is not None:
            s.wait_quiescent()
        sim2.cleanup()
        wait()
    for _ in range(6):
        try:
            sim.start()
        except DSOLError:
            break
        wait()
        if sim.run_state.name == "ENDED":
            break
    d = digests(m, sim, rec)
    sim.cleanup()
    wait()
    return d


def prior_activity(kind):
    """unrelated earlier work in the process: shifts SimEvent ids, EventType
    registry, object addresses"""
    from pydsol.core.simevent import SimEvent
    from pydsol.core.pubsub import EventType

    class T:
        def h(self):
            pass
    t = T()
    # crossNN: the id counter crosses 2^NN between two of the three events
    # that construct_model schedules at the same time with the same priority
    n = {"none": 0, "small": 13, "cross16": 2 ** 16 - 3,
         "cross20": 2 ** 20 - 3, "cross20b": 2 ** 20 - 4,
         "cross24": 2 ** 24 - 3}[kind]
    if n:
        # earlier, unrelated use of default streams in this process
        from pydsol.core.streams import StreamInformation, MersenneTwister
        for _ in range(3):
            st = StreamInformation().get_stream("default")
            [st.next_float() for _ in range(7)]
        MersenneTwister(0).next_float()
        junk = [EventType("C07_junk_%d_%s" % (i, kind)) for i in range(5)]
        # earlier, unrelated code that fills in the arguments of an event it
        # made without any
        ev0 = SimEvent(1.0, t, "h")
        try:
            ev0.kwargs["batch"] = 3
        except Exception:  # noqa
            pass
        keep = []
        for i in range(n):
            e = SimEvent(float(i), t, "h")
            if i % 9973 == 0:
                keep.append(e)
        keep.append([bytearray(37 * (i % 11 + 1)) for i in range(200)])
        return keep, junk
    return None


def child_main(kind):
    from vlib import coopsched
    keep = prior_activity(kind)
    coopsched.install()
    out = {}

    def one(p, late=False):
        r = coopsched.run_one(lambda s: run_pattern(p, s, late=late))
        if r.failure:
            return ["scheduler-%s" % (r.failure[0],), "failure", 0, "failure"]
        return list(r.value)
    import io
    import contextlib
    with contextlib.redirect_stdout(io.StringIO()), \
            contextlib.redirect_stderr(io.StringIO()):
        out["run"] = one(("run",))
        pats = [("step-all",), ("upto", 3.0), ("upto", WARM), ("upto", 1.0),
                ("upto", END), ("upto", END + 1.0), ("other-sim", 3.0),
                ("other-sim", 1.0)]
        pats += [("stop-at", k) for k in range(1, 56)]
        for p in pats:
            out["/".join(str(x) for x in p)] = one(p)
        out["second-replication"] = one(("run",))
        # the same with a clock listener that the model subscribes mid-run
        out["late:run"] = one(("run",), True)
        # (no stepping here: step() is documented to notify the clock
        # listeners for every event, run only when the time changes)
        for p in [("upto", 3.0), ("upto", 1.0), ("upto", 1.5)] + \
                [("stop-at", k) for k in range(1, 40)]:
            out["late:" + "/".join(str(x) for x in p)] = one(p, True)
    json.dump(out, sys.stdout)
    return keep


def scheduled_body(s):
    """driver only polls; used for the wall-clock-speed exploration"""
    from vlib.coopsched import coop_sleep
    import time as _t
    from pydsol.core.simulator import DEVSSimulatorFloat
    from pydsol.core.experiment import SingleReplication
    Model, Rec = build()
    sim = DEVSSimulatorFloat("s")
    m = Model(sim, nmax=6)
    rec = Rec()
    sim.initialize(m, SingleReplication("r", 0.0, 1.0, 3.0))
    s.wait_quiescent()
    rec.subscribe(sim)
    sim.start()
    n = 0
    while sim.is_starting_or_running() and n < 100000:
        coop_sleep(0.001)
        n += 1
    s.wait_quiescent()
    d = digests(m, sim, rec)
    sim.cleanup()
    s.wait_quiescent()
    return d


def sched_worker(task):
    from vlib import coopsched, common
    root, budget = task[:2]
    bound = task[2] if len(task) > 2 else 1
    coopsched.install()

    def judge(res):
        if res.failure:
            return ("scheduler", res.failure[0]), [res.failure]
        return res.value, []
    with common.quiet_stdio():
        n, outcomes, viols, left, maxpts = coopsched.explore_subtree(
            scheduled_body, root, bound, budget, judge)
    return n, {repr(k): v for k, v in outcomes.items()}, \
        [(list(p), repr(k), repr(b)) for p, k, b in viols[:20]], left, maxpts


def run(ctx):
    from vlib import common
    quick = ctx.tier == "quick"
    hashseeds = ["0", "1", "2", "3", "random"]
    if ctx.seed:
        hashseeds.append(str(1 + ctx.seed % 4000000000))
    priors = ["none", "small", "cross16", "cross20"]
    configs = [(h, p) for h in hashseeds for p in priors[:2]]
    configs += [("0", "cross16"), ("2", "cross20"), ("random", "cross20b")]
    if not quick:
        configs += [(h, p) for h in ("5", "77", "4294967295", "random")
                    for p in priors] + [("1", "cross24")]
    procs = []
    env0 = dict(os.environ)
    results = {}
    pending = list(configs)
    running = []
    while pending or running:
        while pending and len(running) < common.NCPU:
            h, p = pending.pop(0)
            env = dict(env0, PYTHONHASHSEED=h)
            running.append(((h, p), subprocess.Popen(
                [sys.executable, "-W", "ignore", "-m", "checks.c07",
                 "--child", p], env=env, stdout=subprocess.PIPE,
                stderr=subprocess.PIPE, cwd=common.ROOT)))
        (cfg, pr) = running.pop(0)
        out, err = pr.communicate(timeout=1800)
        if pr.returncode != 0:
            raise common.HarnessError("child %s failed: %s" % (
                cfg, err.decode()[-400:]))
        results[cfg] = json.loads(out)
    base_cfg = configs[0]
    base = results[base_cfg]
    evals = 0
    nontriv = 0
    for cfg, res in results.items():
        for pat, d in res.items():
            evals += 1
            if d[2] > 20:
                nontriv += 1
            # same pause pattern: the FULL digest must agree across processes
            if d[0] != base[pat][0]:
                ctx.violation(
                    "C07:process:%s" % ("pause" if pat != "run" else "run"),
                    "pattern %s: full digest %s with PYTHONHASHSEED=%s, prior "
                    "activity '%s' but %s with PYTHONHASHSEED=%s, prior "
                    "activity '%s'" % (pat, d[0], cfg[0], cfg[1],
                                       base[pat][0], base_cfg[0], base_cfg[1]),
                    {"mode": "process", "hashseed": cfg[0], "prior": cfg[1],
                     "pattern": pat})
            # different pause patterns: reduced digest must agree
            ref = res["late:run" if pat.startswith("late:") else "run"]
            if d[1] == ref[1] and "step" not in pat and d[3] != ref[3]:
                ctx.violation(
                    "C07:pause-pattern-clock-notifications:%s"
                    % pat.split("/")[0].replace(":", "-"),
                    "PYTHONHASHSEED=%s, prior '%s': pausing with %s changes "
                    "the time-changed notifications (%s vs uninterrupted %s)"
                    % (cfg[0], cfg[1], pat, d[3], ref[3]),
                    {"mode": "process", "hashseed": cfg[0], "prior": cfg[1],
                     "pattern": pat})
            if d[1] != ref[1]:
                ctx.violation(
                    "C07:pause-pattern:%s" % pat.split("/")[0].replace(":", "-"),
                    "PYTHONHASHSEED=%s, prior '%s': pausing with %s changes "
                    "events / statistics / replication notifications "
                    "(%s vs uninterrupted %s)" % (cfg[0], cfg[1], pat, d[1], ref[1]),
                    {"mode": "process", "hashseed": cfg[0], "prior": cfg[1],
                     "pattern": pat})
    ctx.part("interpreter processes", configurations=len(configs),
             pause_patterns=len(base), events_per_run=base["run"][2])
    ctx.sample({"config": list(base_cfg), "digest_run": base["run"]})
    # wall-clock speed: schedules of the polling driver, <= 1 preemption
    from vlib import coopsched
    coopsched.install()
    queue = [()]
    total = 0
    outcomes = {}
    maxpts = 0
    cap = 3000 if quick else 400000
    bound = 1 if quick else 2
    while queue and total < cap:
        batch, queue = queue[:64], queue[64:]
        for n, outs, viols, left, mp in common.pimap(
                sched_worker, [(list(r), 60, bound) for r in batch]):
            total += n
            maxpts = max(maxpts, mp)
            for k, v in outs.items():
                outcomes[k] = outcomes.get(k, 0) + v
            queue.extend(tuple(x) for x in left)
            for p, k, b in viols:
                ctx.violation("C07:schedule:scheduler-failure",
                              "schedule %s: %s" % (p, b),
                              {"mode": "schedule", "prefix": p})
    if len(outcomes) > 1:
        ks = sorted(outcomes, key=lambda k: -outcomes[k])
        ctx.violation("C07:schedule:digest-depends-on-interleaving",
                      "digests %s under different schedules of a polling "
                      "driver" % ks[:3], {"mode": "schedule"})
    if queue:
        ctx.cap("schedule exploration capped at %d executions (%d subtrees "
                "left)" % (cap, len(queue)))
    ctx.part("polling-driver schedules (<=%d preemption)" % bound,
             executions=total,
             distinct_digests=len(outcomes), max_choice_points=maxpts,
             complete=not queue)
    ctx.coverage.update(
        evaluations=evals + total, distinct_nontrivial=nontriv,
        rule="one replication of a stochastic fan-out model (6 listeners on "
        "one type, 3 on another, id- and name-hashed, unsubscribing and "
        "re-subscribing at run time, drawing from a shared stream and "
        "scheduling events on a 0.5 time grid => many exact ties; "
        "SimCounter/SimTally/SimPersistent) per (process configuration x "
        "pause pattern): configurations = PYTHONHASHSEED in %s x prior "
        "activity in %s (SimEvent id counter crossing 2^16 / 2^20 during the "
        "run); pause patterns = uninterrupted, step-all, run_up_to(3), "
        "run_up_to(warm-up), stop at handler k for k=1..55 (every position inside a burst of thirty simultaneous events), and a second "
        "replication. Same pattern => identical full digest (event log, "
        "statistics hex, complete notification stream) across all processes; "
        "different patterns => identical reduced digest (event log, "
        "statistics, replication-level notifications). Plus every schedule with <=1 (thorough: <=2, up to the stated cap) preemption of a "
        "driver that only polls. non-trivial = runs with > 20 logged events."
        % (hashseeds, priors))
    ctx.assumptions += [
        "PYTHONHASHSEED and prior activity are sampled dimensions (listed)",
        "pausing legitimately inserts STOPPING/STOP/STARTING/START and step() "
        "announces every event time, so across pause patterns only the "
        "reduced digest is compared"]


def replay(data):
    if data.get("mode") == "process":
        from vlib import common
        env = dict(os.environ, PYTHONHASHSEED=str(data["hashseed"]))
        a = subprocess.run([sys.executable, "-W", "ignore", "-m",
                            "checks.c07", "--child", data["prior"]], env=env,
                           capture_output=True, cwd=common.ROOT)
        env = dict(os.environ, PYTHONHASHSEED="0")
        b = subprocess.run([sys.executable, "-W", "ignore", "-m",
                            "checks.c07", "--child", "none"], env=env,
                           capture_output=True, cwd=common.ROOT)
        ra, rb = json.loads(a.stdout), json.loads(b.stdout)
        bad = [(p, ra[p], rb[p]) for p in ra if ra[p][0] != rb[p][0]]
        base = lambda p: "late:run" if p.startswith("late:") else "run"  # noqa
        bad += [(p, ra[p][1], ra[base(p)][1]) for p in ra
                if ra[p][1] != ra[base(p)][1]]
        bad += [(p, "clock", ra[p][3], ra[base(p)][3]) for p in ra
                if "step" not in p and ra[p][3] != ra[base(p)][3]]
        return bad[:3] or None
    return None


if __name__ == "__main__":
    if "--child" in sys.argv:
        child_main(sys.argv[sys.argv.index("--child") + 1])
