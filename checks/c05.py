"""C05 - fault containment.

Fault enumeration: model programs x every single and double set of failing
handlers x fault position (before/after the handler's actions) x wrapping /
non-wrapping event class x error strategy x driver (start, bounded pieces,
step), executed on the real simulator in lockstep with the reference.
"""
import itertools

from vlib import common, coopsched, progmc

LEVEL = "fault_enumeration"

LABELS = [(d, p) for d in (0, 1, 2) for p in (5, 10)]


def strategies():
    from pydsol.core.simulator import ErrorStrategy
    return {"LOG_AND_CONTINUE": ErrorStrategy.LOG_AND_CONTINUE,
            "WARN_AND_CONTINUE": ErrorStrategy.WARN_AND_CONTINUE,
            "WARN_AND_PAUSE": ErrorStrategy.WARN_AND_PAUSE}


def fault_sets(n, pairs):
    out = []
    for i in range(n):
        for pos in ("pre", "post", "stoppre", "prebase"):
            out.append({i: pos})
    if pairs:
        for i, j in itertools.combinations(range(n), 2):
            for pi in ("pre", "post"):
                for pj in ("pre", "post"):
                    out.append({i: pi, j: pj})
    return out


def plan(prog, faults, sname, driver, end, switch=None):
    """reference lockstep: list of pieces with expectations; under PAUSE a
    run piece that stopped after a failing event is re-issued"""
    pause = sname == "WARN_AND_PAUSE"
    ref = progmc.RefSim(prog, end=end, faults=faults, pause_on_fault=pause)
    # handlers that change the error strategy while the run is in progress
    ref.switch = {t: (s_ == "WARN_AND_PAUSE")
                  for t, s_ in (switch or {}).items()}
    pieces, exps = [], []

    def run_piece(piece):
        for _ in range(12 + len(prog)):
            e = ref.cmd(piece)
            pieces.append(piece)
            exps.append(e)
            if not e.get("paused"):
                return
        raise common.HarnessError("reference did not finish a piece")
    if driver == "start":
        run_piece(("start",))
    elif driver == "bounded":
        run_piece(("upto", 1))
        run_piece(("uptoi", 2))
        run_piece(("start",))
    elif driver == "step":
        # step until nothing executable is left, then finish with start
        for _ in range(20 + len(prog)):
            nxt = ref.ref.peek()
            if nxt is None or nxt[0] > end:
                break
            # a step never pauses: the failure is contained in step()
            e = ref.cmd(("step",))
            pieces.append(("step",))
            exps.append(e)
        run_piece(("start",))
    # after the end everything is refused
    pieces.append(("start",))
    exps.append(ref.cmd(("start",)))
    return pieces, exps


def compare(obs, exps):
    bad = []
    for i, (o, e) in enumerate(zip(obs, exps)):
        if o["outcome"] != e["outcome"]:
            kind = "escaped-exception" if o["outcome"].startswith("other") \
                else "outcome"
            bad.append((kind, i, o["outcome"], e["outcome"]))
        if o["trace"] != e["trace"]:
            bad.append(("trace", i, o["trace"], e["trace"]))
        if o["clock"] != e["clock"]:
            bad.append(("clock", i, o["clock"], e["clock"]))
        if tuple(o["state"]) != tuple(e["state"]):
            bad.append(("state", i, o["state"], e["state"]))
        if bad:
            break
    return bad


def slow_listener(which):
    """subscribes a listener that takes (virtual) time - 50 ms - for the
    simulator's START / STARTING / STOP notification: the commands of the
    driver go on meanwhile"""
    def attach(sim):
        from pydsol.core.pubsub import EventListener
        from pydsol.core.interfaces import SimulatorInterface as S

        class Slow(EventListener):
            def notify(self, e):
                coopsched.coop_sleep(0.05)
        keep = Slow()
        attach.keep = keep
        sim.add_listener(getattr(S, which + "_EVENT"), keep)
    return attach


def judge(case):
    prog, clock, faults, sname, driver, raw, end = case[:7]
    switch = case[7] if len(case) > 7 else {}
    slow = None
    if isinstance(switch, str):
        slow, switch = switch, {}
    pieces, exps = plan(prog, faults, sname, driver, end, switch)
    strat = strategies()[sname]
    # every other case selects the strategy together with an explicit log
    # level (the two-argument form of set_error_strategy)
    if (len(prog) + len(driver) + len(sname)) % 3 == 0:
        # the strategy as an equal-valued number of another type (an
        # application enum.IntEnum member / a float): accepted by
        # set_error_strategy, so it selects the same behaviour
        import enum
        AppStrategy = enum.IntEnum("AppStrategy", {n_: int(v_) for n_, v_
                                                   in strategies().items()})
        strat = AppStrategy[sname] if len(faults) % 2 else float(int(strat))
    sel = (len(prog) + len(faults) + len(driver) + len(sname)) % 4
    if sel:
        # (also the lowest level, 0 = logging.NOTSET, and a low one)
        import logging
        strat = (strat, (None, logging.ERROR, logging.NOTSET,
                         logging.DEBUG)[sel])
    with common.quiet_stdio():
        try:
            r = progmc.run_pieces(prog, clock, pieces, faults=faults,
                                  strategy=strat, raw=raw, end=end,
                                  listener=slow_listener(slow) if slow
                                  else None,
                                  switch={t: strategies()[s_]
                                          for t, s_ in switch.items()})
        except common.HarnessError:
            raise
        except Exception as ex:  # noqa
            return [("driver-exception", type(ex).__name__, str(ex)[:100])]
    if "failure" in r:
        return [("scheduler-" + r["failure"][0], str(r["failure"][1])[:200])]
    return compare(r["obs"], exps)


def case_json(case):
    prog, clock, faults, sname, driver, raw, end = case[:7]
    sw = case[7] if len(case) > 7 else {}
    if isinstance(sw, str):
        sw = {"slow": sw}
    return {"switch": {str(k): v for k, v in sw.items()},
            "program": progmc.prog_to_json(prog), "clock": clock,
            "faults": {str(k): v for k, v in faults.items()},
            "strategy": sname, "driver": driver, "raw": sorted(raw),
            "end": end}


def case_from_json(j):
    return (progmc.prog_from_json(j["program"]), j["clock"],
            {int(k): v for k, v in j["faults"].items()}, j["strategy"],
            j["driver"], set(j["raw"]), j["end"],
            j["switch"]["slow"] if "slow" in j.get("switch", {}) else
            {int(k): v for k, v in j.get("switch", {}).items()})


def worker(task):
    N, chunk, nchunks, pairs, clocks, rawmodes = task
    coopsched.install()
    n = 0
    nontriv = 0
    best, cnt = {}, {}
    sample = None
    idx = 0
    for parents in progmc.gen_shapes(N):
        k = len(parents)
        for labs in itertools.product(LABELS, repeat=k):
            idx += 1
            if idx % nchunks != chunk:
                continue
            if sum(cnt.values()) > 150:
                continue     # this slice has reported plenty already
            prog = progmc.build(parents, labs, 0)
            for faults in fault_sets(k, pairs):
                for rawmode in rawmodes:
                    raw = set(faults) if rawmode else set()
                    if rawmode and "prebase" in faults.values():
                        continue   # (a user event class that lets a
                        # non-Exception through is the user's business)
                    for sname in ("LOG_AND_CONTINUE", "WARN_AND_CONTINUE",
                                  "WARN_AND_PAUSE"):
                        for driver in ("start", "bounded", "step"):
                            for clock in clocks:
                                case = (prog, clock, faults, sname, driver,
                                        raw, progmc.END)
                                n += 1
                                bad = judge(case)
                                if k >= 2:
                                    nontriv += 1
                                if sample is None and k == N and \
                                        len(faults) == 2:
                                    sample = case_json(case)
                                bads = [(bad, case, "")]
                                if len(faults) == 1 and not rawmode and \
                                        clock == clocks[0] and \
                                        sname != "WARN_AND_CONTINUE":
                                    # one handler switches the strategy
                                    # between continue and pause mid-run
                                    other = "WARN_AND_PAUSE" if sname == \
                                        "LOG_AND_CONTINUE" else \
                                        "LOG_AND_CONTINUE"
                                    for t in range(k):
                                        c2 = case + ({t: other},)
                                        n += 1
                                        bads.append((judge(c2), c2,
                                                     ":switched"))
                                if len(faults) == 1 and not rawmode and \
                                        clock == clocks[0] and \
                                        (k <= 2 or len(clocks) > 1):
                                    # (quick tier: programs of <= 2 events)
                                    # a subscriber that is slow to take a
                                    # notification of the simulator
                                    for which in ("START", "STARTING",
                                                  "STOP"):
                                        c2 = case + (which,)
                                        n += 1
                                        bads.append((judge(c2), c2,
                                                     ":slow-" + which))
                                for bad, case, tagx in bads:
                                  for b in bad[:1]:
                                    sig = "C05:%s:%s:%s%s%s" % (
                                        sname, driver, b[0],
                                        ":raw" if raw else "", tagx)
                                    cnt[sig] = cnt.get(sig, 0) + 1
                                    rank = k * 10 + len(faults)
                                    if sig not in best or rank < best[sig][3]:
                                        best[sig] = (
                                            sig, "%s: %s" % (case_json(case),
                                                             b),
                                            case_json(case), rank)
    return dict(n=n, nontrivial=nontriv, sample=sample,
                viols=[v + (cnt[v[0]],) for v in best.values()])


def many_worker(task):
    """many failing events in ONE replication (bursts, chains and ladders of
    k events; all of them failing, every second, every third one): nothing
    may change with the number of failures seen so far"""
    clock, k = task
    coopsched.install()
    n = 0
    best, cnt = {}, {}
    for name, prog, end in progmc.burst_programs(k):
        if name.startswith("strata"):
            continue
        nev = len(prog) - 1
        plans = [("all", {i: "post" for i in range(nev)}),
                 ("odd", {i: ("post", "pre")[i % 4 == 1]
                          for i in range(nev) if i % 2}),
                 ("third", {i: "post" for i in range(nev) if i % 3 == 2})]
        for pname, faults in plans:
            if not faults:
                continue
            for sname in ("LOG_AND_CONTINUE", "WARN_AND_CONTINUE",
                          "WARN_AND_PAUSE"):
                for driver in ("start", "step"):
                    case = (prog, clock, faults, sname, driver, set(), end)
                    n += 1
                    bad = judge(case)
                    for b in bad[:1]:
                        sig = "C05:many:%s:%s:%s" % (sname, driver, b[0])
                        cnt[sig] = cnt.get(sig, 0) + 1
                        if sig not in best or k < best[sig][3]:
                            best[sig] = (sig, "%s of %d events, failing: %s "
                                         "(%d), %s, driver %s, %s clock: %s"
                                         % (name, k, pname, len(faults),
                                            sname, driver, clock,
                                            str(b)[:300]),
                                         case_json(case), k)
    return dict(n=n, nontrivial=n, sample=None,
                viols=[v + (cnt[v[0]],) for v in best.values()])


def run(ctx):
    quick = ctx.tier == "quick"
    N = 3
    nchunks = common.NCPU * 2
    clocks = ("float",) if quick else ("float", "int", "duration")
    tasks = [(N, i, nchunks, True, clocks, (False, True))
             for i in range(nchunks)]
    # replications that do not start at zero / an int clock beyond 2^53
    tasks += [(2, i, 4, True, ("float@100", "int@2^60", "duration@1h"),
               (False,)) for i in range(4)]
    if not quick:
        tasks += [(4, i, nchunks * 4, False, ("float",), (False,))
                  for i in range(nchunks * 4)]
    total = nontriv = 0
    ks = [1, 2, 3, 5, 8, 9, 15, 16, 17, 18, 24, 25, 31, 32, 33, 34, 40] \
        if quick else list(range(1, 49)) + [64, 65]
    mtasks = [(c, k) for k in reversed(ks)
              for c in (("float",) if quick else ("float", "int",
                                                    "duration"))]
    for r in itertools.chain(common.pimap(worker, tasks),
                             common.pimap(many_worker, mtasks)):
        total += r["n"]
        nontriv += r["nontrivial"]
        if r["sample"]:
            ctx.sample(r["sample"], limit=3)
        for sig, what, rep, rank, count in r["viols"]:
            ctx.violation(sig, what, rep, rank, count)
    ctx.part("fault plans executed", runs=total)
    ctx.coverage.update(
        evaluations=total, distinct_nontrivial=nontriv,
        rule="all handler trees with <=3 events (delays {0,1,2}, priorities "
        "{5,10}; thorough adds <=4 events with single faults) x every single "
        "failing event and every pair x fault before/after the handler's own "
        "scheduling actions x SimEvent / non-wrapping user event class x "
        "{LOG_AND_CONTINUE, WARN_AND_CONTINUE, WARN_AND_PAUSE} x driver "
        "{start, run_up_to(1)+run_up_to_including(2)+start, step until "
        "drained + start}; under PAUSE every run piece that stopped after a "
        "failing event is re-issued (resume). Plus many failures in one "
        "replication: bursts, chains, fans and ladders of k<=40 (thorough 65) "
        "events of which all / every second / every third fail, x strategy x "
        "{start, step}. Plus handlers that raise a BaseException that is not "
        "an Exception. Plus, for single faults, a subscriber that takes 50 ms "
        "of virtual time for the START / STARTING / STOP notification while "
        "the driver's command goes on (quick: programs of <=2 events). "
        "After every command: outcome, "
        "executed trace, clock, (run_state, replication_state) vs reference. "
        "Cases are distinct by construction; non-trivial = >=2 events.")
    ctx.assumptions += [
        "WARN_AND_END / WARN_AND_EXIT (terminating strategies) are outside "
        "the property",
        "a handler failing before its scheduling actions performs none of "
        "them (reference does the same)"]


def replay(data):
    coopsched.install()
    bad = judge(case_from_json(data))
    return bad or None
