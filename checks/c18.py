"""C18 - input parameters always hold a valid value, addressable by dotted key.

(E1) all set-value sequences up to a depth per parameter class x read-only
     flag x access path (object / model, top level / nested);
(E2) explicit-state BFS over parameter trees (create / remove / duplicate /
     model-level get+set) with the reference tree itself as the state;
(E3) constructor table: every class x valid / invalid argument sets.
"""
import collections
import itertools
import math

from vlib import common

LEVEL = "model_checking"


def spec():
    from pydsol.core.parameters import (
        InputParameterInt, InputParameterFloat, InputParameterStr,
        InputParameterBool, InputParameterQuantity,
        InputParameterSelectionList, InputParameterUnit)
    from pydsol.core.units import Length, Duration, Energy, Torque

    def isint(v):
        return isinstance(v, int) and not isinstance(v, bool)
    S = {
        "int": dict(
            mk=lambda k, par, pr, d, ro: InputParameterInt(
                k, "n", d, pr, parent=par, read_only=ro, min_value=0,
                max_value=10),
            good=[5, 0, 10], bad=[50, -1, "x", 2.5, None],
            vals=[0, 10, 7, -1, 11, "x", 2.5, None, math.nan, True],
            ok=lambda v: isinstance(v, int) and 0 <= v <= 10),
        "intfrac": dict(
            # integer parameter declared with fractional bounds
            mk=lambda k, par, pr, d, ro: InputParameterInt(
                k, "n", d, pr, parent=par, read_only=ro, min_value=0.5,
                max_value=2.75),
            good=[1, 2], bad=[0, 3, 1.5, None],
            vals=[1, 2, 0, 3, -1, 1.5, "x", None],
            ok=lambda v: isinstance(v, int) and 0.5 <= v <= 2.75),
        "intneg": dict(
            mk=lambda k, par, pr, d, ro: InputParameterInt(
                k, "n", d, pr, parent=par, read_only=ro, min_value=-2.5,
                max_value=-0.5),
            good=[-1, -2], bad=[0, -3, None],
            vals=[-1, -2, 0, -3, 1, -0.5, None],
            ok=lambda v: isinstance(v, int) and -2.5 <= v <= -0.5),
        "intmin": dict(
            # only the lower bound declared
            mk=lambda k, par, pr, d, ro: InputParameterInt(
                k, "n", d, pr, parent=par, read_only=ro, min_value=1),
            good=[1, 5, 10 ** 9], bad=[0, -3, 2.5, None],
            vals=[1, 7, 0, -1, 10 ** 9, 2.5, "x", None],
            ok=lambda v: isinstance(v, int) and v >= 1),
        "intmax": dict(
            # only the upper bound declared
            mk=lambda k, par, pr, d, ro: InputParameterInt(
                k, "n", d, pr, parent=par, read_only=ro, max_value=10),
            good=[10, -5, -10 ** 9], bad=[11, 2.5, None],
            vals=[10, 3, 11, -10 ** 9, 12, 2.5, "x", None],
            ok=lambda v: isinstance(v, int) and v <= 10),
        "floatmin": dict(
            mk=lambda k, par, pr, d, ro: InputParameterFloat(
                k, "n", d, pr, parent=par, read_only=ro, min_value=0.5),
            good=[0.5, 3.0, 7], bad=[0.25, -1.0, "x", None],
            vals=[0.5, 2.0, 0.25, -1.0, 1e300, "x", None],
            ok=lambda v: isinstance(v, (int, float)) and v >= 0.5),
        "float": dict(
            mk=lambda k, par, pr, d, ro: InputParameterFloat(
                k, "n", d, pr, parent=par, read_only=ro, min_value=0.0,
                max_value=1.0),
            good=[0.5, 0.0, 1], bad=[2.0, -0.5, "x", None, math.nan],
            vals=[0.0, 1.0, 0.25, 1, -0.1, 1.5, "x", None, math.nan,
                  math.inf],
            ok=lambda v: isinstance(v, (int, float)) and 0 <= v <= 1),
        "str": dict(
            mk=lambda k, par, pr, d, ro: InputParameterStr(
                k, "n", d, pr, parent=par, read_only=ro),
            good=["abc", ""], bad=[5, None, 1.5],
            vals=["", "x", "long text", 5, None, 2.5],
            ok=lambda v: isinstance(v, str)),
        "bool": dict(
            mk=lambda k, par, pr, d, ro: InputParameterBool(
                k, "n", d, pr, parent=par, read_only=ro),
            good=[True, False], bad=[1, "x", None],
            vals=[True, False, 1, 0, "x", None],
            ok=lambda v: isinstance(v, bool)),
        "qty": dict(
            mk=lambda k, par, pr, d, ro: InputParameterQuantity(
                k, "n", d, pr, parent=par, read_only=ro, min_si=0.0,
                max_si=100.0),
            good=[Length(5, "m"), Length(0.1, "km")],
            bad=[Length(1, "km"), Length(-1, "m"), 5.0, None],
            vals=[Length(0, "m"), Length(10, "cm"), Length(100, "m"),
                  Length(1, "km"), Length(-1, "mm"), Duration(5, "s"), 5.0,
                  None, Length(math.nan, "m")],
            ok=lambda v: isinstance(v, Length) and 0 <= v.si <= 100),
        "qty2": dict(
            # a quantity class whose SI signature is shared by another class
            mk=lambda k, par, pr, d, ro: InputParameterQuantity(
                k, "n", d, pr, parent=par, read_only=ro, min_si=0.0,
                max_si=100.0),
            good=[Energy(5, "J"), Energy(0.01, "kJ")],
            bad=[Energy(1, "kJ"), 5.0, None],
            vals=[Energy(0, "J"), Energy(100, "J"), Torque(5, "N.m"),
                  Torque(50, "N.m"), Energy(-1, "J"), Energy(1, "kJ"), 5,
                  Length(5, "m")],
            ok=lambda v: type(v) is Energy and 0 <= v.si <= 100),
        "sel": dict(
            mk=lambda k, par, pr, d, ro: InputParameterSelectionList(
                k, "n", ["a", "b"], d, pr, parent=par, read_only=ro),
            good=["a", "b"], bad=["z", 1, None],
            vals=["a", "b", "z", "", 1, None],
            ok=lambda v: isinstance(v, str) and v in ("a", "b")),
        "unit": dict(
            mk=lambda k, par, pr, d, ro: InputParameterUnit(
                k, "n", Length, d, pr, parent=par, read_only=ro),
            good=["m", "km"], bad=["s", 1, None],
            vals=["km", "m", "mm", "s", "", 1, None],
            ok=lambda v: isinstance(v, str) and v in Length._units),
    }
    return S


def same(a, b):
    if isinstance(a, float) and isinstance(b, float) and a != a and b != b:
        return True
    return a is b or (type(a) == type(b) and a == b)


def new_model():
    from pydsol.core.model import DSOLModel
    from pydsol.core.simulator import DEVSSimulatorFloat

    class M(DSOLModel):
        def construct_model(self):
            pass
    return M(DEVSSimulatorFloat("s"))


# ------------------------------------------------------------------ E1
def e1_worker(task):
    kind, ro, depth = task
    from pydsol.core.parameters import InputParameterMap
    sp = spec()[kind]
    n = 0
    bad = []
    vals = sp["vals"]
    for access in ("object", "model-top", "model-nested"):
        for good in sp["good"][:2]:
            for seq in itertools.product(range(len(vals)), repeat=depth):
                n += 1
                model = new_model()
                root = model.input_parameters
                if access == "model-nested":
                    par = InputParameterMap("m", "m", 1.0, parent=root)
                    path = "m.k"
                else:
                    par = root
                    path = "k"
                try:
                    p = sp["mk"]("k", par, 1.0, good, ro)
                except Exception as ex:  # noqa
                    bad.append(("valid-constructor-raised", kind, repr(good),
                                type(ex).__name__))
                    break
                cur = good
                for i in seq:
                    v = vals[i]
                    try:
                        if access == "object":
                            p.set_value(v)
                        else:
                            model.set_parameter(path, v)
                        acc = True
                    except Exception:  # noqa
                        acc = False
                    want = (not ro) and sp["ok"](v)
                    if acc and ro:
                        if not same(p.value, cur):
                            bad.append(("read-only-changed", kind, access,
                                        repr(v)))
                    elif acc and not sp["ok"](v):
                        bad.append(("invalid-value-accepted", kind, access,
                                    repr(v)))
                    elif not acc and want:
                        bad.append(("valid-value-refused", kind, access,
                                    repr(v)))
                    if acc and not ro:
                        cur = v
                    got = p.value
                    if not same(got, cur):
                        bad.append(("value-after-attempt", kind, access,
                                    repr(v), repr(got), repr(cur), acc))
                        cur = got
                    if not sp["ok"](got):
                        bad.append(("holds-invalid-value", kind, access,
                                    repr(got)))
                    if not same(p.default_value, good):
                        bad.append(("default-changed", kind, access,
                                    repr(p.default_value)))
                    try:
                        mv = model.get_parameter(path)
                        if not same(mv, got):
                            bad.append(("model-get-differs", kind, access,
                                        repr(mv), repr(got)))
                    except Exception as ex:  # noqa
                        bad.append(("model-get-raised", kind, access,
                                    type(ex).__name__))
                    if root.get(path) is not p:
                        bad.append(("get-identity", kind, access))
                if len(bad) > 200:
                    return n, bad
    return n, bad


# ------------------------------------------------------------------ E3
def e3_constructors():
    from pydsol.core.parameters import (
        InputParameterMap, InputParameterInt, InputParameterFloat,
        InputParameterQuantity, InputParameterSelectionList)
    from pydsol.core.units import Length
    S = spec()
    n = 0
    bad = []

    def attempt(kind, label, f, should_work):
        nonlocal n
        n += 1
        root = InputParameterMap("root", "r", 1)
        sib = S["int"]["mk"]("sib", root, 1.0, 5, False)
        try:
            p = f(root)
            made = True
        except Exception:  # noqa
            made = False
        keys = list(root.value.keys())
        if made and not should_work:
            bad.append(("invalid-constructor-accepted", kind, label))
        if not made and should_work:
            bad.append(("valid-constructor-refused", kind, label))
        if made:
            if "k" not in keys or root.get("k") is not p:
                bad.append(("constructed-not-registered", kind, label))
        else:
            if keys != ["sib"]:
                bad.append(("rejected-constructor-left-child-registered",
                            kind, label, keys))
            try:
                root.get("k")
                bad.append(("rejected-constructor-retrievable", kind, label))
            except KeyError:
                pass
        if root.get("sib") is not sib:
            bad.append(("sibling-lost", kind, label))
    for kind, sp in S.items():
        for ro in (False, True):
            for g in sp["good"]:
                attempt(kind, "default=%r ro=%s" % (g, ro),
                        lambda r, g=g, ro=ro: sp["mk"]("k", r, 1.0, g, ro),
                        True)
            for b in sp["bad"]:
                attempt(kind, "default=%r ro=%s" % (b, ro),
                        lambda r, b=b, ro=ro: sp["mk"]("k", r, 1.0, b, ro),
                        False)
        # base-class argument errors
        g = sp["good"][0]
        for label, f in (
                ("key not str", lambda r: sp["mk"](5, r, 1.0, g, False)),
                ("empty key", lambda r: sp["mk"]("", r, 1.0, g, False)),
                ("key with period", lambda r: sp["mk"]("a.b", r, 1.0, g,
                                                       False)),
                ("priority not a number", lambda r: sp["mk"]("k", r, "hi", g,
                                                             False)),
                ("read_only not bool", lambda r: sp["mk"]("k", r, 1.0, g,
                                                          "no")),
                ("duplicate key", lambda r: sp["mk"]("sib", r, 1.0, g,
                                                     False))):
            n += 1
            root = InputParameterMap("root", "r", 1)
            sib = S["int"]["mk"]("sib", root, 1.0, 5, False)
            try:
                f(root)
                bad.append(("invalid-constructor-accepted", kind, label))
            except Exception:  # noqa
                pass
            if list(root.value.keys()) != ["sib"] or \
                    root.get("sib") is not sib:
                bad.append(("rejected-constructor-changed-parent", kind,
                            label, list(root.value.keys())))
    # bounds declarations
    for label, f in (
            ("int min>=max", lambda r: InputParameterInt(
                "k", "n", 5, 1.0, parent=r, min_value=10, max_value=0)),
            ("float min>=max", lambda r: InputParameterFloat(
                "k", "n", 0.5, 1.0, parent=r, min_value=1.0, max_value=1.0)),
            ("qty min>=max", lambda r: InputParameterQuantity(
                "k", "n", Length(1), 1.0, parent=r, min_si=5.0, max_si=1.0)),
            ("int min==max", lambda r: InputParameterInt(
                "k", "n", 5, 1.0, parent=r, min_value=5, max_value=5)),
            ("float min>max", lambda r: InputParameterFloat(
                "k", "n", 0.5, 1.0, parent=r, min_value=1.0, max_value=0.0)),
            ("qty min==max", lambda r: InputParameterQuantity(
                "k", "n", Length(1), 1.0, parent=r, min_si=1.0, max_si=1.0)),
            ("sel options not list", lambda r: InputParameterSelectionList(
                "k", "n", "ab", "a", 1.0, parent=r)),
            ("sel option not str", lambda r: InputParameterSelectionList(
                "k", "n", ["a", 1], "a", 1.0, parent=r))):
        attempt("decl", label, f, False)
    # a default exactly on a declared bound is inside the bounds
    for label, f in (
            ("int default==min", lambda r: InputParameterInt(
                "k", "n", 0, 1.0, parent=r, min_value=0, max_value=10)),
            ("int default==max", lambda r: InputParameterInt(
                "k", "n", 10, 1.0, parent=r, min_value=0, max_value=10)),
            ("float default==min", lambda r: InputParameterFloat(
                "k", "n", 0.5, 1.0, parent=r, min_value=0.5, max_value=2.0)),
            ("float default==max", lambda r: InputParameterFloat(
                "k", "n", 2.0, 1.0, parent=r, min_value=0.5, max_value=2.0)),
            ("qty default==min", lambda r: InputParameterQuantity(
                "k", "n", Length(1), 1.0, parent=r, min_si=1.0, max_si=5.0)),
            ("qty default==max", lambda r: InputParameterQuantity(
                "k", "n", Length(5), 1.0, parent=r, min_si=1.0, max_si=5.0))):
        attempt("decl", label, f, True)
    # the model's parameter map can be replaced by another map only
    from pydsol.core.model import DSOLModel
    model = new_model()
    fresh = InputParameterMap("root", "parameters", 1)
    n += 2
    try:
        model.input_parameters = fresh
        if model.input_parameters is not fresh:
            bad.append(("model-parameter-map-not-replaced", "decl", "setter"))
    except Exception as ex:  # noqa
        bad.append(("model-parameter-map-refused", "decl", type(ex).__name__))
    try:
        model.input_parameters = {"not": "a map"}
        bad.append(("model-parameter-map-accepts-anything", "decl", "setter"))
    except TypeError:
        pass
    except Exception as ex:  # noqa
        bad.append(("model-parameter-map-wrong-exception", "decl",
                    type(ex).__name__))
    return n, bad


# ------------------------------------------------------------------ E2
KEYS = ["a", "b", "c"]
PRIOS = [1, 2]


class RNode:
    __slots__ = ("key", "kind", "prio", "children", "value", "obj",
                 "removed", "default0")

    def __init__(self, key, kind, prio):
        self.key = key
        self.kind = kind
        self.prio = prio
        self.children = []      # ordered
        self.value = 3
        self.obj = None
        self.removed = []       # (root only) nodes taken out, newest last
        self.default0 = None    # default value right after construction


def r_canon(node):
    return (node.key, node.kind, node.prio, node.value if node.kind == "int"
            else None, tuple(r_canon(c) for c in node.children),
            tuple(r_canon(c) for c in node.removed[-2:]))


def r_find(root, path):
    node = root
    for part in path:
        nxt = [c for c in node.children if c.key == part]
        if not nxt:
            return None
        node = nxt[0]
    return node


def r_maps(root, prefix=()):
    out = [prefix]
    node = r_find(root, prefix)
    if len(prefix) < 2:
        for c in node.children:
            if c.kind == "map":
                out += r_maps(root, prefix + (c.key,))
    return out


def r_paths(root, prefix=()):
    out = []
    node = r_find(root, prefix)
    for c in node.children:
        out.append(prefix + (c.key,))
        if c.kind == "map":
            out += r_paths(root, prefix + (c.key,))
    return out


def ops_for(root):
    ops = []
    for mp in r_maps(root):
        for kind in ("int", "map"):
            for key in KEYS:
                for pr in PRIOS:
                    ops.append(("create", mp, kind, key, pr))
    for p in r_paths(root):
        ops.append(("remove", p))
        node = r_find(root, p)
        if node.kind == "int":
            ops.append(("mset", p, 7))
            ops.append(("mset", p, 99))
    # a parameter that was taken out is put into a map again (the same or
    # another one); sub-trees stay out to keep the depth bounded
    # a parameter that lives in one map is offered to another map that
    # already has a child with that key: refused, nothing changes
    maps = r_maps(root)
    for p in r_paths(root):
        node = r_find(root, p)
        for mp in maps:
            if mp == p[:-1] or mp[:len(p)] == p:
                continue
            tgt = r_find(root, mp)
            if any(c_.key == node.key for c_ in tgt.children):
                ops.append(("adddup", p, mp))
    for back, node in enumerate(reversed(root.removed[-2:])):
        if node.kind == "map" and node.children:
            continue
        for mp in r_maps(root):
            ops.append(("readd", back, mp))
    return ops


def apply_both(model, rroot, op):
    """apply op to the real tree (under model) and the reference; returns a
    list of disagreements"""
    from pydsol.core.parameters import InputParameterMap, InputParameterInt
    bad = []
    real_root = model.input_parameters
    k = op[0]
    if k == "create":
        _, mp, kind, key, pr = op
        parent_r = r_find(rroot, mp)
        parent = real_root if not mp else real_root.get(".".join(mp))
        dup = any(c.key == key for c in parent_r.children)
        # top-level parameters are registered through the model itself when
        # the priority is 2 (model.add_parameter), through parent= otherwise
        via_model = (not mp) and pr == 2
        try:
            if kind == "int":
                obj = InputParameterInt(key, "n", 3, pr,
                                        parent=None if via_model else parent,
                                        min_value=0, max_value=10)
            else:
                obj = InputParameterMap(key, "n", pr,
                                        parent=None if via_model else parent)
            if via_model:
                model.add_parameter(obj)
            made = True
        except ValueError:
            made = False
        except Exception as ex:  # noqa
            made = False
            bad.append(("create-wrong-exception", op, type(ex).__name__))
        if dup and made:
            bad.append(("duplicate-key-accepted", op))
        if not dup and not made:
            bad.append(("create-refused", op))
        if made and not dup:
            node = RNode(key, kind, pr)
            node.obj = obj
            import copy
            node.default0 = copy.deepcopy(obj.default_value)
            # insert: by priority, ties in insertion order
            ch = parent_r.children
            i = len(ch)
            while i > 0 and ch[i - 1].prio > pr:
                i -= 1
            ch.insert(i, node)
    elif k == "remove":
        _, p = op
        node = r_find(rroot, p)
        try:
            got = real_root.remove(".".join(p))
            if got is not node.obj:
                bad.append(("remove-returned-other-object", op))
        except Exception as ex:  # noqa
            bad.append(("remove-raised", op, type(ex).__name__))
        r_find(rroot, p[:-1]).children.remove(node)
        rroot.removed.append(node)
    elif k == "adddup":
        _, p, mp = op
        node = r_find(rroot, p)
        parent = real_root if not mp else real_root.get(".".join(mp))
        try:
            parent.add(node.obj)
            bad.append(("duplicate-key-accepted", op))
        except ValueError:
            pass
        except Exception as ex:  # noqa
            bad.append(("add-wrong-exception", op, type(ex).__name__))
    elif k == "readd":
        _, back, mp = op
        node = rroot.removed[-1 - back]
        parent_r = r_find(rroot, mp)
        parent = real_root if not mp else real_root.get(".".join(mp))
        dup = any(c.key == node.key for c in parent_r.children)
        try:
            parent.add(node.obj)
            made = True
        except ValueError:
            made = False
        except Exception as ex:  # noqa
            made = False
            bad.append(("add-wrong-exception", op, type(ex).__name__))
        if dup and made:
            bad.append(("duplicate-key-accepted", op))
        if not dup and not made:
            bad.append(("add-refused", op))
        if made and not dup:
            rroot.removed.remove(node)
            ch = parent_r.children
            i = len(ch)
            while i > 0 and ch[i - 1].prio > node.prio:
                i -= 1
            ch.insert(i, node)
    elif k == "mset":
        _, p, v = op
        node = r_find(rroot, p)
        try:
            model.set_parameter(".".join(p), v)
            acc = True
        except Exception:  # noqa
            acc = False
        ok = 0 <= v <= 10
        if acc != ok:
            bad.append(("model-set-outcome", op, acc, ok))
        if ok:
            node.value = v
    return bad


def observe(model, rroot):
    bad = []
    real_root = model.input_parameters
    # listing order of every map
    for mp in r_maps(rroot):
        node = r_find(rroot, mp)
        try:
            m = real_root if not mp else real_root.get(".".join(mp))
        except Exception as ex:  # noqa
            bad.append(("map-not-retrievable", mp, type(ex).__name__))
            return bad
        got = list(m.value.keys())
        exp = [c.key for c in node.children]
        if got != exp:
            bad.append(("listing-order", mp, got, exp))
    for p in r_paths(rroot):
        node = r_find(rroot, p)
        dotted = ".".join(p)
        try:
            obj = real_root.get(dotted)
        except Exception as ex:  # noqa
            bad.append(("get-raised", dotted, type(ex).__name__))
            continue
        if obj is not node.obj:
            bad.append(("get-returns-other-object", dotted))
            continue
        ek = obj.extended_key()
        if ek != "root." + dotted:
            bad.append(("extended-key", dotted, ek))
        if node.kind == "map":
            # a map is read-only: its children are not replaced by set_value
            before = list(obj.value.keys())
            try:
                obj.set_value({})
                bad.append(("map-accepts-set_value", dotted))
            except Exception:  # noqa
                pass
            if list(obj.value.keys()) != before:
                bad.append(("map-children-changed-by-set_value", dotted))
        # the default value is what it was after construction (for a map:
        # whatever children come and go)
        if obj.default_value != node.default0 or (
                node.kind == "map" and obj.default_value is obj.value):
            bad.append(("default-value-changed", dotted,
                        repr(obj.default_value)[:60], repr(node.default0)))
        if node.kind == "int":
            if obj.value != node.value:
                bad.append(("value", dotted, obj.value, node.value))
            try:
                mv = model.get_parameter(dotted)
                if mv != node.value:
                    bad.append(("model-get", dotted, mv, node.value))
            except Exception as ex:  # noqa
                bad.append(("model-get-raised", dotted, type(ex).__name__))
        # addressable relative to its own parent map as well
        if len(p) == 2:
            sub = real_root.get(p[0])
            if sub.get(p[1]) is not node.obj:
                bad.append(("relative-get", dotted))
    # absent paths are not retrievable, through the map or the model
    present = set(r_paths(rroot))
    for mp in r_maps(rroot):
        for key in KEYS:
            p = mp + (key,)
            if p in present:
                continue
            for label, f in (("get", lambda d: real_root.get(d)),
                             ("model-get", lambda d: model.get_parameter(d)),
                             ("model-set", lambda d: model.set_parameter(d,
                                                                         5))):
                try:
                    f(".".join(p))
                    bad.append(("absent-path-%s-succeeded" % label,
                                ".".join(p)))
                except KeyError:
                    pass
                except Exception as ex:  # noqa
                    bad.append(("absent-path-%s-wrong-exception" % label,
                                ".".join(p), type(ex).__name__))
    return bad


def replay_tree(hist):
    model = new_model()
    rroot = RNode("root", "map", 1)
    bad = []
    for op in hist:
        try:
            bad += apply_both(model, rroot, op)
            bad += observe(model, rroot)
        except Exception as ex:  # noqa  (a broken tree may break any step)
            bad.append(("history-raised", op, type(ex).__name__,
                        str(ex)[:80]))
            break
    return model, rroot, bad


def move_family():
    """histories of length 4-6 that the breadth-first search does not reach
    in the quick tier: a parameter is taken out of a map, another parameter
    may take its key there, and the first one is put into the same or another
    map (and possibly taken out and put back once more)"""
    hists = []
    for mkey in KEYS[:2]:
        for key in KEYS:
            if key == mkey:
                continue
            for kx in ("int", "map"):
                for ky in (None, "int", "map"):
                    for p1 in ((), (mkey,)):
                        for p2 in ((), (mkey,)):
                            h = [("create", (), "map", mkey, 1),
                                 ("create", p1, kx, key, 1),
                                 ("remove", p1 + (key,))]
                            if ky is not None:
                                h.append(("create", p1, ky, key, 2))
                            h.append(("readd", 0, p2))
                            hists.append(tuple(h))
                            if ky is None or p1 != p2:
                                hists.append(tuple(h) + (
                                    ("remove", p2 + (key,)),
                                    ("readd", 0, p1)))
    # ties in insertion order after children were taken out: three or four
    # children of equal priority, one or two taken out, new ones added
    for kinds in (("int", "int", "int"), ("map", "int", "int")):
        for pr in (1, 2):
            for gone in ((0,), (0, 1), (1,), (1, 2), (0, 2)):
                for newkeys in (("a",), ("b", "a"), ("c",)):
                    h = [("create", (), kinds[i], KEYS[i], pr)
                         for i in range(3)]
                    h += [("remove", (KEYS[i],)) for i in gone]
                    for k_ in newkeys:
                        if KEYS.index(k_) in gone:
                            h.append(("create", (), "int", k_, pr))
                    if len(h) > 3 + len(gone):
                        hists.append(tuple(h))
    n = 0
    viols = []
    for h in hists:
        n += 1
        try:
            _, _, bad = replay_tree(h)
        except Exception as ex:  # noqa
            bad = [("history-raised", type(ex).__name__, str(ex)[:80])]
        if bad:
            viols.append((h, bad[0]))
    return n, viols


def bottom_up_family(maxdepth):
    """trees up to `maxdepth` maps deep that are put together in EVERY order
    (bottom-up, top-down, middle-out), with and without looking at the keys
    in between, and populated sub-trees that are moved to another place:
    every parameter stays addressable by the dotted key of where it is now"""
    from pydsol.core.parameters import InputParameterMap, InputParameterInt
    n = 0
    viols = []
    MK = ["a", "b", "c", "d", "e"]

    def expect_keys(objs, parent_of):
        out = {}
        for o in objs:
            path = [o.key]
            q = o
            while id(q) in parent_of:
                q = parent_of[id(q)]
                path.append(q.key)
            out[id(o)] = ".".join(reversed(path))
        return out
    for D in range(1, maxdepth + 1):
        for perm in itertools.permutations(range(D + 1)):
            for look in (True, False):
                n += 1
                model = new_model()
                root = model.input_parameters
                maps = [InputParameterMap(MK[i], "n", 1) for i in range(D)]
                side = [InputParameterInt("s", "n", 3, 1, parent=m,
                                          min_value=0, max_value=10)
                        for m in maps]
                leaf = InputParameterInt("n", "n", 3, 1, min_value=0,
                                         max_value=10)
                chain = [root] + maps + [leaf]
                objs = maps + side + [leaf]
                parent_of = {id(s_): m for s_, m in zip(side, maps)}
                bad = None
                try:
                    for e in perm:
                        chain[e].add(chain[e + 1])
                        parent_of[id(chain[e + 1])] = chain[e]
                        if look:
                            want = expect_keys(objs, parent_of)
                            for o in objs:
                                got = o.extended_key()
                                str(o)
                                if got != want[id(o)]:
                                    bad = ("extended-key-while-building",
                                           got, want[id(o)])
                    want = expect_keys(objs, parent_of)
                    for o in objs:
                        got = o.extended_key()
                        if got != want[id(o)] and bad is None:
                            bad = ("extended-key", got, want[id(o)])
                        dotted = want[id(o)][len("root."):]
                        if root.get(dotted) is not o and bad is None:
                            bad = ("get-by-extended-key", dotted)
                        if model.get_parameter(dotted) != o.value and \
                                o.key in ("s", "n") and bad is None:
                            bad = ("model-get", dotted)
                    # move the populated top map under a new map, then the
                    # deepest map straight under the root
                    other = InputParameterMap("other", "n", 1, parent=root)
                    got_obj = root.remove(MK[0])
                    del parent_of[id(maps[0])]
                    if got_obj is not maps[0] and bad is None:
                        bad = ("remove-returned-other-object",)
                    if look:
                        # (what a parameter that is in no tree calls itself
                        # is not stated anywhere; only looked at)
                        for o in objs:
                            o.extended_key()
                    other.add(maps[0])
                    parent_of[id(maps[0])] = other
                    parent_of[id(other)] = root
                    if D >= 2:
                        maps[-2].remove(maps[-1].key)
                        root.add(maps[-1])
                        parent_of[id(maps[-1])] = root
                    want = expect_keys(objs, parent_of)
                    for o in objs:
                        got = o.extended_key()
                        if got != want[id(o)] and bad is None:
                            bad = ("extended-key-after-move", got,
                                   want[id(o)])
                        dotted = want[id(o)][len("root."):]
                        try:
                            if root.get(dotted) is not o and bad is None:
                                bad = ("get-by-extended-key-after-move",
                                       dotted)
                        except Exception as ex:  # noqa
                            if bad is None:
                                bad = ("get-after-move-raised", dotted,
                                       type(ex).__name__)
                    # removable by the dotted key
                    lk = want[id(leaf)][len("root."):]
                    if root.remove(lk) is not leaf and bad is None:
                        bad = ("remove-by-extended-key", lk)
                except Exception as ex:  # noqa
                    bad = ("family-raised", type(ex).__name__, str(ex)[:80])
                if bad:
                    viols.append(((D, list(perm), look), bad))
    return n, viols


def e2_bfs(depth, cap):
    try:
        return e2_bfs_(depth, cap, True)
    except common.FingerprintTooFine:
        return e2_bfs_(depth, cap, False)


def e2_bfs_(depth, cap, use_fp):
    refstates = set()
    seen = {(r_canon(RNode("root", "map", 1)), None): ()}
    frontier = collections.deque([()])
    trans = 0
    viols = []
    capped = False
    maxd = 0
    while frontier:
        h = frontier.popleft()
        maxd = max(maxd, len(h))
        if len(h) >= depth:
            continue
        _, rroot, _ = replay_tree(h)
        for op in ops_for(rroot):
            trans += 1
            m2, r2, bad = replay_tree(h + (op,))
            if bad:
                viols.append((h + (op,), bad[0]))
                if len(viols) > 100:
                    return seen, trans, viols, capped, maxd
                continue
            # reference tree + everything the real objects remember (memos
            # and caches are hidden state: merge only when they agree too)
            try:
                fp = common.fingerprint(
                    [m2.input_parameters]
                    + [x.obj for x in r2.removed[-2:]])
            except Exception:  # noqa
                fp = None
            refstates.add(r_canon(r2))
            c = (r_canon(r2), fp if use_fp else None)
            if use_fp:
                common.fp_guard(len(seen), len(refstates), factor=4)
            if c not in seen:
                if len(seen) >= cap:
                    capped = True
                    continue
                seen[c] = h + (op,)
                frontier.append(h + (op,))
    return seen, trans, viols, capped, maxd


def run(ctx):
    quick = ctx.tier == "quick"
    depth1 = 3 if quick else 4
    tasks = [(k, ro, depth1) for k in spec() for ro in (False, True)]
    n1 = 0
    for n, bad in common.pimap(e1_worker, tasks):
        n1 += n
        for b in bad:
            ctx.violation("C18:%s:%s:%s" % (b[0], b[1], b[2]),
                          "parameter value: %s" % (b,),
                          {"part": "E1", "case": list(b)})
    ctx.part("E1 set-value sequences", sequences=n1, depth=depth1)
    n3, bad = e3_constructors()
    for b in bad:
        ctx.violation("C18:%s:%s" % (b[0], b[1]),
                      "constructor: %s" % (b,),
                      {"part": "E3", "case": list(b)})
    ctx.part("E3 constructor table", cases=n3, violations=len(bad))
    seen, trans, viols, capped, maxd = e2_bfs(3 if quick else 4,
                                              4000 if quick else 60000)
    for h, b in viols:
        ctx.violation("C18:tree:%s" % b[0],
                      "parameter tree after %s: %s" % (list(h), b),
                      {"part": "E2", "hist": [list(o) for o in h]},
                      rank=len(h))
    nm, mviols = move_family()
    for h, b in mviols:
        ctx.violation("C18:tree:%s" % b[0],
                      "parameter tree after %s: %s" % (list(h), b),
                      {"part": "E2", "hist": [list(o) for o in h]},
                      rank=len(h))
    ctx.part("E2 take-out / put-back histories (length 4-7)", histories=nm,
             violations=len(mviols))
    MD = 4 if quick else 5
    nb, bviols = bottom_up_family(MD)
    for case, b in bviols[:20]:
        ctx.violation("C18:tree:assembly:%s" % b[0],
                      "tree of %d nested maps put together in the order %s "
                      "(keys looked at in between: %s): %s" % (
                          case[0], case[1], case[2], b),
                      {"part": "assembly", "maxdepth": MD}, rank=case[0])
    ctx.part("E2 trees of up to %d nested maps assembled in every order, "
             "populated sub-trees moved" % MD, assemblies=nb,
             violations=len(bviols))
    if capped:
        ctx.cap("E2 state cap hit")
    ctx.part("E2 tree BFS", states=len(seen), transitions=trans,
             maxdepth=maxd, violations=len(viols))
    deepest = max(seen.values(), key=len)
    ctx.sample({"tree_history": [list(o) for o in deepest]})
    ctx.coverage.update(
        states=len(seen), transitions=trans + n1 + n3,
        traces_validated_against_impl=trans + n1,
        explanation="E2: states = reference parameter trees (ordered children "
        "with kind/priority/value); every op (create int/map with key in "
        "{a,b,c} x priority {1,2} in every existing map up to depth 2, "
        "remove, put a removed parameter back into any map, model-level set) "
        "is applied to a real tree under a real "
        "DSOLModel replayed from scratch, followed by a full observation: "
        "listing order of every map, identity get by dotted key from the "
        "root and from the parent map, extended_key, value, model get, absent "
        "paths refused. E1: all set-value sequences of length %d over "
        "per-class alphabets (valid, out of range, wrong type, NaN) x "
        "read-only x {object, model top-level, model nested}. E3: constructor "
        "table (valid/invalid defaults and declarations): a rejected "
        "constructor leaves the parent unchanged." % depth1)
    ctx.assumptions += [
        "removing an absent key is unspecified (docstring says None, code "
        "raises KeyError) and not explored",
        "E2 bounded by depth %d from the empty tree (state dedup on the "
        "reference tree)" % (3 if quick else 4)]


def replay(data):
    if data.get("part") == "E2":
        hist = tuple(tuple(tuple(x) if isinstance(x, list) else x for x in o)
                     for o in data["hist"])
        _, _, bad = replay_tree(hist)
        return bad or None
    if data.get("part") == "E3":
        n, bad = e3_constructors()
        return bad[:3] or None
    if data.get("part") == "assembly":
        return bottom_up_family(data["maxdepth"])[1][:3] or None
    out = []
    for k in spec():
        for ro in (False, True):
            n, bad = e1_worker((k, ro, 2))
            out += bad
    return out[:3] or None
