"""C06 - replications are isolated: re-initialising gives a fresh, reproducible
run.

Exhaustive table: prior histories of the simulator (never started, stepped k
times, paused at event k by a handler stop / a handler fault, bounded run,
ended, ended by end_replication, cleaned up, initialised twice, a shorter or
longer previous replication) x stochastic model variants that create all four
simulation statistics and seeded streams in construct_model x three clock
types.  The replication that follows must be indistinguishable (digest of
event log, statistics, notification stream, pending events after initialize)
from the same replication on a brand-new simulator and model.
"""
import itertools

from vlib import common, coopsched

LEVEL = "exploration"


def clock_types():
    from pydsol.core.units import Duration
    from pydsol.core.simulator import (DEVSSimulatorFloat, DEVSSimulatorInt,
                                       DEVSSimulatorDuration)
    return {"float": (DEVSSimulatorFloat, lambda x: float(x)),
            "int": (DEVSSimulatorInt, lambda x: int(round(x * 8))),
            "duration": (DEVSSimulatorDuration,
                         lambda x: Duration(float(x), "s"))}


_M = None


def model_class():
    global _M
    if _M is not None:
        return _M
    from pydsol.core.model import DSOLModel
    from pydsol.core.streams import MersenneTwister
    from pydsol.core.distributions import DistExponential, DistUniform
    from pydsol.core.statistics import (SimCounter, SimTally,
                                        SimWeightedTally, SimPersistent)
    from pydsol.core.pubsub import EventListener
    from pydsol.core.interfaces import (SimulatorInterface as S,
                                        ReplicationInterface as RI)

    class QModel(DSOLModel):
        """single-server queue with balking; all statistics and the seeded
        stream are created in construct_model, as the documentation says"""

        def __init__(self, sim, T, variant):
            super().__init__(sim)
            self.T = T
            self.variant = variant
            self.stop_at = None      # handler index at which to stop()
            self.fault_at = None     # handler index at which to raise
            self.init_at = None      # handler index at which to initialize()
            self.init_out = None
            self.rep = None
            self.nh = 0
            self.log = []
            self.constructed = 0
            # a stream object that lives as long as the model and is seeded
            # anew for every replication (seed handed over by the experiment)
            self.keep = MersenneTwister(3)
            self.next_seed = 777

        def construct_model(self):
            sim = self.simulator
            self.constructed += 1
            self.nh = 0
            self.log = []
            self.q = 0
            self.stream = MersenneTwister(11 + self.variant)
            # streams with the valid seeds 0 and False
            self.zero = MersenneTwister(0)
            self.falsy = MersenneTwister(False)
            self.keep.set_seed(self.next_seed)
            # a component that follows the simulator's notifications and has
            # side effects of its own (built anew for every replication)
            self.watch = Watch(self)
            sim.add_listener(S.TIME_CHANGED_EVENT, self.watch)
            sim.add_listener(RI.WARMUP_EVENT, self.watch)
            self.ia = DistExponential(self.stream, 0.7)
            self.sv = DistUniform(self.stream, 0.2, 0.9)
            self.cnt = SimCounter("arr", "arrivals", sim)
            self.tal = SimTally("svc", "service", sim)
            self.wt = SimWeightedTally("wt", "weighted", sim)
            self.per = SimPersistent("q", "queue", sim)
            sim.schedule_event_now(self, "arrive")
            # a maximum-priority model event exactly at the warm-up instant
            sim.schedule_event_abs(sim.replication.warmup_sim_time, self,
                                   "special", 10)
            if self.variant % 2:
                sim.schedule_event_rel(self.T(0.5), self, "special", 1)
            # two events at one instant with one priority, the first
            # scheduled now, the second by a handler at 2.5: their order is
            # the order of scheduling, whatever else goes on in the process
            # (forty event numbers are used up first by requests that are
            # withdrawn at once, so the older event carries a number that a
            # counter started afresh elsewhere stays below for a while)
            for _ in range(40):
                sim.cancel_event(sim.schedule_event_rel(self.T(1.0), self,
                                                        "special", 5))
            sim.schedule_event_rel(self.T(3.0), self, "tie", 5, tag="old")
            sim.schedule_event_rel(self.T(2.5), self, "mk", 5)

        def now(self):
            return float(self.simulator.simulator_time)

        def hook(self, name):
            s = coopsched.Sched.cur
            if s is not None and s.killed:
                raise coopsched.Kill()
            k = self.nh
            self.nh += 1
            if self.nh > 3000:
                # watchdog against a runaway run loop: stop generating work
                self.dead = True
                raise RuntimeError("runaway")
            self.log.append((name, self.now()))
            if self.init_at == k:
                from pydsol.core.utils import DSOLError
                try:
                    self.simulator.initialize(self, self.rep)
                    self.init_out = "accepted"
                except DSOLError:
                    self.init_out = "DSOLError"
                except Exception as ex:  # noqa
                    self.init_out = "other:" + type(ex).__name__
            if self.stop_at == k:
                self.stop_at = None
                self.simulator.stop()
            if self.fault_at == k:
                self.fault_at = None
                raise RuntimeError("injected")
            if self.variant % 2 == 1 and k == 4:
                # odd model variants fail once in every replication; their
                # simulator runs under LOG_AND_CONTINUE (set once, by the
                # experiment, before the first initialize)
                raise RuntimeError("recurring fault of the model")

        def late_setup(self):
            """registered with add_initial_method: part of every
            replication's set-up"""
            self.hook("late_setup")
            self.simulator.schedule_event_rel(self.T(0.25), self, "special",
                                              5)

        def special(self):
            self.hook("special")
            self.cnt.register(3)
            self.tal.register(0.125 + self.zero.next_float()
                              + self.falsy.next_float()
                              + self.keep.next_float())

        def arrive(self):
            self.hook("arrive")
            sim = self.simulator
            self.cnt.register(1)
            if self.q < 3:
                self.q += 1
                self.per.register(self.now(), self.q)
                d = self.sv.draw()
                self.wt.register(d, float(self.q))
                sim.schedule_event_rel(self.T(d), self, "depart", 5, svc=d)
            sim.schedule_event_rel(self.T(self.ia.draw()), self, "arrive")

        def mk(self):
            self.hook("mk")
            self.simulator.schedule_event_rel(self.T(0.5), self, "tie", 5,
                                              tag="new")

        def tie(self, tag):
            self.hook("tie-" + tag)

        def depart(self, svc):
            self.hook("depart")
            self.q -= 1
            self.per.register(self.now(), self.q)
            self.tal.register(svc)

    class Watch(EventListener):
        def __init__(self, model):
            self.m = model
            self.n = 0

        def notify(self, e):
            m = self.m
            self.n += 1
            m.log.append(("watch", self.n, m.stream.next_float()))
            if e.event_type is RI.WARMUP_EVENT:
                m.simulator.schedule_event_rel(m.T(0.75), m, "special", 5)

    class Rec(EventListener):
        def __init__(self):
            self.stream = []
            self.names = {S.STARTING_EVENT: "STARTING", S.START_EVENT: "START",
                          S.STOPPING_EVENT: "STOPPING", S.STOP_EVENT: "STOP",
                          S.TIME_CHANGED_EVENT: "TC",
                          RI.START_REPLICATION_EVENT: "START_REPLICATION",
                          RI.END_REPLICATION_EVENT: "END_REPLICATION",
                          RI.WARMUP_EVENT: "WARMUP"}

        def notify(self, e):
            ts = getattr(e, "timestamp", None)
            self.stream.append((self.names.get(e.event_type, "?"),
                                None if ts is None else float(ts)))

        def subscribe(self, sim):
            for et in self.names:
                sim.add_listener(et, self)
    _M = (QModel, Rec)
    return _M


def fhex(x):
    if isinstance(x, float):
        return x.hex() if x == x else "nan"
    if isinstance(x, tuple):
        return tuple(fhex(i) for i in x)
    return x


def stats_digest(m):
    out = {}
    for nm, f in [
            ("cnt", lambda: (m.cnt.n(), m.cnt.count())),
            ("tal", lambda: (m.tal.n(), m.tal.sum(), m.tal.mean(),
                             m.tal.min(), m.tal.max(), m.tal.variance(),
                             m.tal.skewness(), m.tal.kurtosis(),
                             m.tal.confidence_interval(0.05))),
            ("wt", lambda: (m.wt.n(), m.wt.weighted_sum(),
                            m.wt.weighted_mean(), m.wt.weighted_variance(),
                            m.wt.min(), m.wt.max())),
            ("per", lambda: (m.per.n(), m.per.weighted_sum(),
                             m.per.weighted_mean(), m.per.weighted_stdev(),
                             m.per.isactive()))]:
        try:
            out[nm] = fhex(f())
        except Exception as ex:  # noqa
            out[nm] = "raised " + type(ex).__name__
    return out


def wait_idle(sim, s):
    s.wait_quiescent()


def target_replication(sim, m, rep, rec, s, meanwhile=None, T=None):
    """initialize + run to the end (resuming pauses); returns digest.
    meanwhile = (when, callable): the callable (work on ANOTHER simulator in
    the same process) is run after initialize ("after-init") or while this
    replication is paused by a bounded run ("paused")"""
    from pydsol.core.utils import DSOLError
    d = {}
    try:
        sim.initialize(m, rep)
        d["init"] = "ok"
    except DSOLError as ex:
        d["init"] = "DSOLError: %s" % ex
        return d
    except Exception as ex:  # noqa
        d["init"] = "other:%s" % type(ex).__name__
        return d
    wait_idle(sim, s)
    rec.stream = []
    rec.subscribe(sim)
    d["clock_after_init"] = float(sim.simulator_time)
    d["pending_after_init"] = sim.eventlist().size()
    d["state_after_init"] = (sim.run_state.name, sim.replication_state.name)
    d["registered"] = sorted(m.output_statistics().keys())
    d["same_objects"] = all(m.get_output_statistic(k) is o for k, o in
                            (("arr", m.cnt), ("svc", m.tal), ("wt", m.wt),
                             ("q", m.per)))
    if meanwhile is not None:
        if meanwhile[0] == "paused":
            sim.run_up_to(rep.start_sim_time + T(2.0))
            wait_idle(sim, s)
        meanwhile[1]()
    for _ in range(4):
        try:
            sim.start()
        except DSOLError:
            break
        wait_idle(sim, s)
        if sim.run_state.name == "ENDED":
            break
    d["final"] = (sim.run_state.name, sim.replication_state.name,
                  float(sim.simulator_time))
    d["log"] = list(m.log)
    d["stats"] = stats_digest(m)
    d["stream"] = list(rec.stream)
    d["warmups"] = sum(1 for x in rec.stream if x[0] == "WARMUP")
    return d


PRIORS = [("none",), ("init-only",), ("init-twice",), ("step", 1),
          ("step", 2), ("step", 4), ("stop-at", 1), ("stop-at", 3),
          ("fault-at", 2), ("upto", 1.0), ("uptoi", 2.0), ("ended",),
          ("ended-short",), ("ended-long",), ("end_replication", 2),
          ("cleanup-after-steps",), ("stop-then-step",),
          ("init-from-handler", 2), ("init-from-listener", "STARTING"),
          ("init-from-listener", "START"),
          ("init-from-listener", "START_REPLICATION"),
          ("init-and-schedule",),
          # the following replication is given the very same replication
          # object as the history before it
          ("same-rep", ("init-only",)), ("same-rep", ("init-and-schedule",)),
          ("same-rep", ("step", 2)), ("same-rep", ("stop-at", 3)),
          ("same-rep", ("ended",)), ("same-rep", ("upto", 1.0)),
          # twenty earlier replications, each with another seed for the
          # model's long-lived stream
          # another simulator with another instance of the model is set up
          # (and stepped / run) in the same process after this replication
          # was initialised, or while it is paused at time 2
          ("other-sim", "after-init", "init"), ("other-sim", "paused", "init"),
          ("other-sim", "after-init", "run"), ("other-sim", "paused", "run"),
          ("other-sim", "paused", "step3"),
          ("other-sim", "after-init", "tiny"), ("other-sim", "paused", "tiny"),
          ("chain",) + (("init-only",),) * 20,
          ("chain",) + (("step", 1),) * 17 + (("ended",),),
          ("chain",) + (("same-rep", ("init-only",)),) * 3]


def run_case(case):
    clock, variant, prior, warm = case
    from pydsol.core.experiment import SingleReplication
    from pydsol.core.utils import DSOLError
    # "float@100": the replication starts at 100 instead of 0
    off = 0.0
    if "@" in clock:
        clock, off = clock.split("@")
        off = float(off)
    simc, T = clock_types()[clock]
    QModel, Rec = model_class()
    END = 6.0
    START = T(off)

    def rep(end=END):
        return SingleReplication("r", START, T(warm), T(end))

    # a prior history may be a chain of histories, each with its own
    # initialize
    chain = list(prior[1:]) if prior[0] == "chain" else [prior]
    keep_rep = [None]

    def body(s):
        out = {}
        for label in ("reference", "subject"):
            sim = simc("s")
            m = QModel(sim, T, variant)
            sim.add_initial_method(m, "late_setup")
            if variant % 2 == 1:
                from pydsol.core.simulator import ErrorStrategy
                sim.set_error_strategy(ErrorStrategy.LOG_AND_CONTINUE)
            rec = Rec()
            notes = []
            if label == "subject":
                try:
                    for ci, prior in enumerate(chain):
                        k = prior[0]
                        if k == "other-sim":
                            continue
                        same = k == "same-rep"
                        if same:
                            prior = prior[1]
                            k = prior[0]
                        m.next_seed = 5000 + ci
                        keep_rep[0] = None
                        if k != "none":
                            r0 = rep(3.0 if k == "ended-short" else
                                     9.0 if k == "ended-long" else END)
                            m.rep = r0
                            if same:
                                keep_rep[0] = r0
                            sim.initialize(m, r0)
                            wait_idle(sim, s)
                            if k == "init-and-schedule":
                                # set-up work by hand after the initialize
                                sim.schedule_event_abs(START + T(1.5), m,
                                                       "special", 7)
                                sim.schedule_event_abs(START + T(0.0), m,
                                                       "special", 10)
                            elif k == "init-twice":
                                sim.initialize(m, r0)
                                wait_idle(sim, s)
                            elif k == "step":
                                for _ in range(prior[1]):
                                    sim.step()
                            elif k == "stop-at":
                                m.stop_at = prior[1]
                                sim.start()
                                wait_idle(sim, s)
                            elif k == "fault-at":
                                m.fault_at = prior[1]
                                sim.start()
                                wait_idle(sim, s)
                            elif k == "upto":
                                sim.run_up_to(START + T(prior[1]))
                                wait_idle(sim, s)
                            elif k == "uptoi":
                                sim.run_up_to_including(START + T(prior[1]))
                                wait_idle(sim, s)
                            elif k in ("ended", "ended-short", "ended-long"):
                                sim.start()
                                wait_idle(sim, s)
                            elif k == "end_replication":
                                for _ in range(prior[1]):
                                    sim.step()
                                sim.end_replication()
                                wait_idle(sim, s)
                            elif k == "cleanup-after-steps":
                                sim.step()
                                sim.step()
                                sim.cleanup()
                                wait_idle(sim, s)
                            elif k == "stop-then-step":
                                m.stop_at = 2
                                sim.start()
                                wait_idle(sim, s)
                                sim.step()
                            elif k == "init-from-listener":
                                from pydsol.core.pubsub import EventListener
                                from pydsol.core.utils import DSOLError as DE
                                outl = []

                                class ReInit(EventListener):
                                    def notify(self_, e):
                                        if outl:
                                            return
                                        try:
                                            sim.initialize(m, r0)
                                            outl.append("accepted")
                                        except DE:
                                            outl.append("DSOLError")
                                        except Exception as ex:  # noqa
                                            outl.append("other:" +
                                                        type(ex).__name__)
                                nm = {v: k_ for k_, v in rec.names.items()}
                                sim.add_listener(nm[prior[1]], ReInit())
                                n0 = sim.eventlist().size()
                                sim.start()
                                wait_idle(sim, s)
                                notes.append(("init-from-listener",
                                              outl[0] if outl else None, n0,
                                              len(m.log),
                                              sim.run_state.name))
                            elif k == "init-from-handler":
                                m.init_at = prior[1]
                                sim.start()
                                wait_idle(sim, s)
                                notes.append(("init-from-handler", m.init_out,
                                              sim.run_state.name,
                                              len(m.log)))
                                m.init_at = None
                            notes.append(("prior-state", sim.run_state.name,
                                          sim.replication_state.name))
                except DSOLError as ex:
                    notes.append(("prior-raised-DSOLError", str(ex)[:60]))
                except Exception as ex:  # noqa
                    notes.append(("prior-raised", type(ex).__name__))
            m.stop_at = m.fault_at = m.init_at = None
            m.next_seed = 777
            mw = None
            if chain[0][0] == "other-sim":
                def other(how=chain[0][2]):
                    sim2 = simc("other")
                    m2 = QModel(sim2, T, variant)
                    if how == "tiny":
                        # a model that schedules nothing at all
                        from pydsol.core.model import DSOLModel
                        m2 = type("Tiny", (DSOLModel,), {
                            "construct_model": lambda self: None})(sim2)
                    sim2.initialize(m2, rep())
                    wait_idle(sim2, s)
                    if how == "step3":
                        for _ in range(3):
                            sim2.step()
                    elif how == "run":
                        sim2.start()
                        wait_idle(sim2, s)
                    sim2.cleanup()
                    wait_idle(sim2, s)
                # the reference pauses at the same point, with nothing else
                # going on
                mw = (chain[0][1], other if label == "subject"
                      else (lambda: None))
            d = target_replication(
                sim, m, keep_rep[0] if label == "subject" and keep_rep[0]
                is not None else rep(), rec, s, meanwhile=mw, T=T)
            d["notes"] = notes
            out[label] = d
            sim.cleanup()
            wait_idle(sim, s)
        return out
    with common.quiet_stdio():
        r = coopsched.run_one(body)
    if r.failure:
        return [("scheduler-" + r.failure[0], str(r.failure[1])[:120])], None
    o = r.value
    if o is None:
        return [("driver-died", "")], None
    bad = []
    ref, sub = o["reference"], o["subject"]
    for key in ("init", "clock_after_init", "pending_after_init",
                "state_after_init", "registered", "same_objects", "final",
                "log", "stats", "stream", "warmups"):
        if ref.get(key) != sub.get(key):
            bad.append((key, trim(sub.get(key)), trim(ref.get(key))))
    if ref.get("warmups") != 1:
        bad.append(("reference-warmups", ref.get("warmups"), 1))
    # absolute: every replication begins at its own start time
    for lab, dd in (("reference", ref), ("subject", sub)):
        if dd.get("init") == "ok" and \
                dd.get("clock_after_init") != float(START):
            bad.append(("clock-after-initialize-is-not-the-replication-start:"
                        + lab, dd.get("clock_after_init"), float(START)))
        if dd.get("log") and dd["log"][0][1] != float(START):
            bad.append(("first-event-not-at-the-replication-start:" + lab,
                        dd["log"][0], float(START)))
    for n in sub.get("notes", []):
        if n[0] == "init-from-handler" and n[1] != "DSOLError":
            bad.append(("initialize-while-running-not-refused", n, None))
        if n[0] == "init-from-listener":
            if n[1] != "DSOLError":
                bad.append(("initialize-while-starting-not-refused", n, None))
            elif n[3] < 5 or n[4] != "ENDED":
                bad.append(("refused-initialize-disturbed-the-run", n, None))
        if n[0].startswith("prior-raised"):
            bad.append(("prior-history-raised", n, None))
    return bad, o


def trim(x):
    s = repr(x)
    return s if len(s) < 300 else s[:300] + "..."


def worker(case):
    coopsched.install()
    bad, o = run_case(case)
    nontrivial = bool(o and o["reference"].get("log")
                      and len(o["reference"]["log"]) > 5)
    sample = None
    if o and case[2][0] == "stop-at":
        sample = {"case": list(case), "events_in_replication":
                  len(o["reference"].get("log", [])),
                  "stats": o["reference"].get("stats")}
    return case, bad, nontrivial, sample


def determinism_selfcheck():
    coopsched.install()
    c = ("float", 0, ("stop-at", 1), 1.0)
    a = run_case(c)
    b = run_case(c)
    if a[1] != b[1]:
        # the driver is deterministic by construction (scheduler-decided
        # quiescence, no timers): what differs is the library - two
        # replications of one model with the same seeds
        ra, rb = a[1]["reference"], b[1]["reference"]
        keys = [k for k in ra if ra.get(k) != rb.get(k)]
        return ("two-executions-of-the-same-replication-differ", keys,
                trim(ra.get(keys[0]) if keys else None),
                trim(rb.get(keys[0]) if keys else None))
    return None


def run(ctx):
    quick = ctx.tier == "quick"
    nd = determinism_selfcheck()
    if nd is not None:
        ctx.violation("C06:same-seeds:%s" % nd[0],
                      "the same model with the same seeds on two brand-new "
                      "simulators: %s differ: %s vs %s" % (nd[1], nd[2],
                                                           nd[3]),
                      {"case": ["float", 0, ["stop-at", 1], 1.0],
                       "selfcheck": True})
        return
    clocks = ("float", "duration", "int")
    variants = (0, 1) if quick else (0, 1, 2, 3)
    warms = (1.0, 0.0) if quick else (1.0, 0.0, 2.5)
    cases = [(c, v, p, w) for c in clocks for v in variants for p in PRIORS
             for w in warms]
    # replications that do not start at zero
    cases += [(c, 0, p, 1.0) for c in ("float@100", "int@1000", "duration@50")
              for p in PRIORS]
    # chains of two prior histories (each with its own initialize): all
    # ordered pairs in the thorough tier, every history followed / preceded
    # by a completed replication in the quick tier
    simple = [p for p in PRIORS[1:] if p[0] != "chain"]
    pairs = [(p, q) for p in simple for q in simple]
    cases += [(c, v, ("chain", p, q), w) for p, q in pairs
              for c in (("float",) if quick else clocks)
              for v in ((0,) if quick else (0, 1))
              for w in ((1.0,) if quick else (1.0, 0.0))]
    if not quick:
        cases += [("float", 0, ("chain", p, q, r), 1.0)
                  for p in simple[:20] for q in simple[:20]
                  for r in simple[:20]]
    if ctx.seed:
        cases += [("float", 4 + ctx.seed % 50, p, 1.0) for p in PRIORS]
    n = nontriv = 0
    for case, bad, nt, sample in common.pimap(worker, cases):
        n += 1
        nontriv += bool(nt)
        if sample:
            ctx.sample(sample, limit=2)
        for b in bad:
            def hname(x):
                return x[0] if x[0] != "same-rep" else "same-rep." + x[1][0]
            hist = hname(case[2]) if case[2][0] != "chain" else \
                "chain-" + "-".join(hname(x) for x in case[2][1:])
            if len(hist) > 120:
                hist = hist[:60] + "...x%d" % (len(case[2]) - 1)
            ctx.violation("C06:%s:%s" % (hist, b[0]),
                          "%s clock, model variant %d, warm-up %s, prior "
                          "history %s: %s differs: after the prior history %s, "
                          "on a brand-new simulator %s" % (
                              case[0], case[1], case[3], case[2], b[0], b[1],
                              b[2]),
                          {"case": [case[0], case[1], common.jsonable(
                              case[2]), case[3]]})
    ctx.part("prior histories x models x clocks", cases=n,
             priors=len(PRIORS))
    ctx.coverage.update(
        evaluations=n, distinct_nontrivial=nontriv,
        rule="cases = clock in {float, Duration, int} x model variant (seeded "
        "MersenneTwister + Exponential/Uniform distributions, SimCounter, "
        "SimTally, SimWeightedTally, SimPersistent all created in "
        "construct_model; a MAX_PRIORITY model event exactly at the warm-up "
        "time; events left pending beyond the end) x warm-up in %s x prior "
        "history in %s, plus chains of prior histories, each with its own "
        "initialize (quick: all ordered pairs on the float clock; thorough: "
        "all ordered pairs on all clocks, two model variants and warm-ups, "
        "all ordered triples on the float clock). The following replication (initialize + run to the "
        "end) is compared with the same replication on a brand-new simulator "
        "and model on: initialize outcome, clock/pending events/state right "
        "after initialize, registered statistic keys and object identity, "
        "final state, complete event log, all statistics getters (hex), "
        "complete notification stream, exactly one WARMUP. Cases are distinct "
        "by construction; non-trivial = the replication executes > 5 model "
        "events." % (list(warms), [p[0] for p in PRIORS]))
    ctx.assumptions += [
        "listeners are removed by cleanup()/initialize(); the recorder "
        "subscribes after each initialize",
        "sequential scheduler mode; interleavings of initialize with a "
        "running simulator are covered by C04b (S5init)"]


def replay(data):
    coopsched.install()
    if data.get("selfcheck"):
        nd = determinism_selfcheck()
        return [nd] if nd else None
    c = data["case"]
    def tup(x):
        return tuple(tup(i) for i in x) if isinstance(x, list) else x
    bad, o = run_case((c[0], c[1], tup(c[2]), c[3]))
    return bad or None
