"""C03 - run horizon: bounded runs execute exactly the events up to the bound
and compose.

All segmentations of a replication into run_up_to / run_up_to_including /
step / stop-at-event-k pieces (cut points before, at, between event times, at
and beyond the end) followed by a final start(), over all small model
programs, executed on the real simulator in lockstep with reference semantics
and compared with the uninterrupted run.
"""
import itertools

from vlib import common, coopsched, progmc

LEVEL = "exploration"

LABELS = [(d, p) for d in (0, 1, 2) for p in (5, 10)]
CUTS = {"float": [0, 0.5, 1, 1.5, 2, 3, 4, 5],
        "duration": [0, 0.5, 1, 1.5, 2, 3, 4, 5],
        "int": [0, 1, 2, 3, 4, 5]}
CUTS["float@100"] = CUTS["float@-10"] = [0, 1, 2.5, 4, 5]
CUTS["duration@1h"] = [0, 1, 2.5, 4, 5]
CUTS["int@2^60"] = [0, 1, 3, 4, 5]


def alphabet(clock, nmax):
    a = []
    for t in CUTS[clock]:
        a.append(("upto", t))
        a.append(("uptoi", t))
    a.append(("step",))
    for k in range(nmax):
        a.append(("pause_at", k))
    for j in range(min(2, nmax)):
        a.append(("pause_tc", j))
    return a


def extra_alphabet(clock, nmax):
    """bounded runs that are interrupted by a stop before they reach their
    bound (only as the last piece before the closing start)"""
    a = []
    for kk in range(min(2, nmax)):
        a.append(("upto_pause", 2, kk))
        a.append(("upto_pause", 4, kk))
    a.append(("uptoi_pause", 2, 0))
    return a


def judge(prog, clock, pieces, end=progmc.END, bystander=False):
    """returns (list of disagreements, all_specified)"""
    full = progmc.Ref(prog, end=end).full_trace()
    ref = progmc.RefSim(prog, end=end)
    with common.quiet_stdio():
        try:
            r = progmc.run_pieces(prog, clock, pieces, end=end,
                                  bystander=bystander)
        except common.HarnessError:
            raise
        except Exception as ex:  # noqa
            return [("driver-exception", type(ex).__name__,
                     str(ex)[:100])], False
    if "failure" in r:
        return [("scheduler-" + r["failure"][0],
                 str(r["failure"][1])[:200])], False
    bad = []
    allspec = True
    prev_clock = 0.0
    for tr in r["obs"][-1].get("bystander", ()) if bystander == "run" else ():
        if tr != full:
            bad.append(("bystander-run-differs", tr, full))
    for i, (piece, o) in enumerate(zip(pieces, r["obs"])):
        e = ref.cmd(piece)
        if allspec and not e["spec"] and e.get("trace_spec") and \
                o["outcome"] == "ok" and o["trace"] != e["trace"]:
            bad.append(("events-up-to-the-end-with-a-bound-beyond-it", i,
                        piece, o["trace"], e["trace"]))
        if not e["spec"]:
            allspec = False
        # safety, always
        if o["outcome"] not in ("ok", "DSOLError"):
            bad.append(("escaped-exception", i, piece, o["outcome"]))
        if any(t > end for t, _ in o["trace"]):
            bad.append(("event-beyond-end", i, piece, o["trace"]))
        if o["clock"] < prev_clock:
            bad.append(("clock-decreased", i, piece, prev_clock, o["clock"]))
        prev_clock = o["clock"]
        if o["trace"] != full[:len(o["trace"])]:
            bad.append(("not-a-prefix-of-uninterrupted-run", i, piece,
                        o["trace"], full))
        if bad:
            break
        if not allspec:
            continue
        # exact agreement with the reference semantics
        if e.get("may_end") and tuple(o["state"]) == ("ENDED", "ENDED") \
                and o["outcome"] == "ok" and o["trace"] == e["trace"] \
                and o["clock"] == e["clock"]:
            ref.state = "ENDED"      # bound reached the end: may end there
            continue
        for key in ("outcome", "trace", "clock"):
            if o[key] != e[key]:
                bad.append((key, i, piece, o[key], e[key]))
        if tuple(o["state"]) != tuple(e["state"]):
            bad.append(("state", i, piece, o["state"], e["state"]))
        if bad:
            break
    if not bad and allspec and ref.state == "ENDED" and pieces and \
            pieces[-1] == ("start",):
        last = r["obs"][-1]
        ended_early = any(p[0] == "upto" and p[1] == end for p in pieces)
        if not ended_early and (last["trace"] != full
                                or last["clock"] != float(end)):
            bad.append(("composition", len(pieces) - 1, last["trace"], full,
                        last["clock"]))
    return bad, allspec


def worker(task):
    clock, N, depth, chunk, nchunks = task
    coopsched.install()
    n = nspec = 0
    best, cnt = {}, {}
    sample = None
    idx = 0
    for parents in progmc.gen_shapes(N):
        k = len(parents)
        for labs in itertools.product(LABELS, repeat=k):
            idx += 1
            if idx % nchunks != chunk:
                continue
            prog = progmc.build(parents, labs, 0)
            alpha = alphabet(clock, k)
            extra = extra_alphabet(clock, k)
            segs = [seg for d in range(0, depth + 1)
                    for seg in itertools.product(alpha, repeat=d)]
            segs += [seg + (x,) for d in range(0, min(depth, 2))
                     for seg in itertools.product(alpha, repeat=d)
                     for x in extra]
            for seg in segs:
                d = len(seg)
                if True:
                    pieces = list(seg) + [("start",), ("start",)]
                    n += 1
                    bad, allspec = judge(prog, clock, pieces)
                    if allspec:
                        nspec += 1
                    if sample is None and d == depth and k == N and allspec:
                        sample = {"clock": clock,
                                  "program": progmc.prog_to_json(prog),
                                  "pieces": pieces}
                    for b in bad[:1]:
                        kinds = "+".join(p[0] for p in seg)
                        sig = "C03:%s:%s" % (b[0], kinds)
                        cnt[sig] = cnt.get(sig, 0) + 1
                        rank = k * 10 + d
                        if sig not in best or rank < best[sig][3]:
                            rep = {"clock": clock, "pieces": pieces,
                                   "program": progmc.prog_to_json(prog)}
                            best[sig] = (sig, "%s: %s" % (rep, b), rep, rank)
    return dict(clock=clock, n=n, nspec=nspec, sample=sample,
                viols=[v + (cnt[v[0]],) for v in best.values()])


def bystander_worker(task):
    """every segmentation of depth <= 1 of every <=N-event program again,
    while after each piece an unrelated simulator is set up (and run) in the
    same process; plus small bursts"""
    clock, N, mode = task
    coopsched.install()
    n = 0
    best, cnt = {}, {}
    cases = []
    for parents in progmc.gen_shapes(N):
        k = len(parents)
        for labs in itertools.product(LABELS, repeat=k):
            prog = progmc.build(parents, labs, 0)
            for x in [()] + [(a,) for a in alphabet(clock, k)]:
                cases.append((prog, list(x), progmc.END, k))
    for kk in (3, 5):
        for name, prog, end in progmc.burst_programs(kk):
            for seg in ([("pause_at", 1)], [("step",)], [("upto", 1)],
                        [("uptoi", 1), ("step",)]):
                cases.append((prog, list(seg), end, kk))
    for prog, seg, end, k in cases:
        pieces = seg + [("start",), ("start",)]
        n += 1
        bad, _ = judge(prog, clock, pieces, end=end, bystander=mode)
        for b in bad[:1]:
            sig = "C03:bystander-%s:%s:%s" % (
                mode, b[0], "+".join(p[0] for p in seg))
            cnt[sig] = cnt.get(sig, 0) + 1
            rank = k * 10 + len(seg)
            if sig not in best or rank < best[sig][3]:
                rep = {"clock": clock, "pieces": pieces, "end": end,
                       "bystander": mode,
                       "program": progmc.prog_to_json(prog)}
                best[sig] = (sig, "another simulator set up between the "
                             "pieces (%s): %s: %s" % (mode, rep, b), rep,
                             rank)
    return dict(clock=clock, n=n,
                viols=[v + (cnt[v[0]],) for v in best.values()])


def burst_worker(task):
    """bursts of k events at one time / long ladders: a pause at EVERY
    position, single steps up to every position, a bounded run cut at the
    burst; thresholds beyond the reach of the <=3-event programs"""
    clock, k = task
    coopsched.install()
    n = 0
    best, cnt = {}, {}
    for name, prog, end in progmc.burst_programs(k):
        nev = k + (0 if name == "ladder" else 1)
        segs = [[]]
        for j in range(nev):
            segs.append([("pause_at", j)])
            segs.append([("step",)] * (j + 1))
        segs.append([("upto", 1)])
        segs.append([("uptoi", 1)])
        segs.append([("uptoi", 1), ("step",)])
        for j in sorted({0, 1, k // 2, k - 2, k - 1} & set(range(k))):
            segs.append([("uptoi_pause", 1 if name != "ladder" else end, j)])
            segs.append([("pause_at", j), ("pause_at", min(j + 1, nev - 1))])
            segs.append([("pause_at", j), ("step",), ("uptoi", 1)])
        for seg in segs:
            pieces = list(seg) + [("start",), ("start",)]
            n += 1
            bad, allspec = judge(prog, clock, pieces, end=end)
            for b in bad[:1]:
                kinds = "+".join(sorted({p[0] for p in seg}))
                sig = "C03:burst:%s:%s:%s" % (name, b[0], kinds)
                cnt[sig] = cnt.get(sig, 0) + 1
                rank = k * 100 + len(seg)
                if sig not in best or rank < best[sig][3]:
                    rep = {"clock": clock, "pieces": pieces, "end": end,
                           "program": progmc.prog_to_json(prog)}
                    best[sig] = (sig, "%s of %d events, %s clock, pieces %s: "
                                 "%s" % (name, k, clock, pieces[:6], b), rep,
                                 rank)
    return dict(clock=clock, k=k, n=n,
                viols=[v + (cnt[v[0]],) for v in best.values()])


def run(ctx):
    quick = ctx.tier == "quick"
    nch = common.NCPU * 2
    tasks = [("float", 3, 2, i, nch) for i in range(nch)]
    tasks += [(c, 2, 2, i, common.NCPU) for c in ("int", "duration")
              for i in range(common.NCPU)]
    # replications that do not start at time zero
    tasks += [(c, 2, 2, i, 8) for c in ("float@100", "float@-10", "int@2^60",
                                        "duration@1h") for i in range(8)]
    if not quick:
        tasks += [(c, 3, 2, i, nch) for c in ("int", "duration")
                  for i in range(nch)]
        tasks += [(c, 2, 3, i, nch) for c in ("float", "int", "duration")
                  for i in range(nch)]
    total = nspec = 0
    per = {}
    for r in common.pimap(worker, tasks):
        total += r["n"]
        nspec += r["nspec"]
        per[r["clock"]] = per.get(r["clock"], 0) + r["n"]
        if r["sample"]:
            ctx.sample(r["sample"], limit=3)
        for sig, what, rep, rank, count in r["viols"]:
            ctx.violation(sig, what, rep, rank, count)
    for c, n in sorted(per.items()):
        ctx.part("segmentations on %s clock" % c, executed=n)
    ks = [1, 2, 3, 5, 8, 9, 12, 16, 17, 24, 25, 26, 32, 33, 34, 40] if quick \
        else list(range(1, 49)) + [64, 65]
    bclocks = ["float", "int", "duration"]
    bn = 0
    for r in common.pimap(burst_worker, [(c, k) for k in reversed(ks)
                                         for c in bclocks]):
        bn += r["n"]
        for sig, what, rep, rank, count in r["viols"]:
            ctx.violation(sig, what, rep, rank, count)
    ctx.part("bursts and ladders of k events, k in %s: a pause at every "
             "position, single steps up to every position, bounded runs cut "
             "at the burst" % ks, executed=bn)
    total += bn
    yn = 0
    for r in common.pimap(bystander_worker,
                          [(c, 2 if quick else 3, mode)
                           for c in ("float", "int", "duration")
                           for mode in ("init", "run")]):
        yn += r["n"]
        for sig, what, rep, rank, count in r["viols"]:
            ctx.violation(sig, what, rep, rank, count)
    ctx.part("segmentations of depth <= 1 with an unrelated simulator of the "
             "same class created, initialised (mode init) and run to its end "
             "(mode run) after every piece in the same process", executed=yn)
    total += yn
    ctx.coverage.update(
        evaluations=total, distinct_nontrivial=nspec,
        rule="programs: all handler trees with <=3 events (delays {0,1,2}, "
        "priorities {5,10}; replication [0,4] so events fall before, at and "
        "beyond the end) x all sequences of <=2 (thorough: <=3 on <=2-event "
        "programs) pieces from {run_up_to(t), run_up_to_including(t) for t in "
        "cut points 0,0.5,1,1.5,2,3,4=end,5; step; stop issued by the driver "
        "while handler k runs} followed by start() twice (the second must be "
        "refused). Every piece is compared with the reference semantics "
        "(outcome, executed trace, clock, states) and the final trace/clock "
        "with the uninterrupted run. Plus every segmentation of depth <=1 "
        "of the <=2-event (thorough <=3) programs and small bursts with an "
        "unrelated simulator of the same class created, initialised and run "
        "in the same process after every piece (its own trace must be the "
        "uninterrupted one too). distinct_nontrivial counts the "
        "segmentations in which every piece is a specified cell (exact "
        "comparison); the others (bound before the clock / beyond the end, "
        "step with the next event beyond the end) get the safety oracle only: "
        "no event beyond the end, clock never decreases, trace is a prefix of "
        "the uninterrupted run.")
    ctx.assumptions += [
        "exclusive run_up_to(end): events before end executed and clock == "
        "end are demanded; ending the replication there or staying resumable "
        "are both accepted",
        "quiescence is decided by the scheduler (all non-driver threads "
        "blocked), never by a timer"]


def replay(data):
    coopsched.install()
    prog = progmc.prog_from_json(data["program"])
    pieces = [tuple(p) for p in data["pieces"]]
    bad, _ = judge(prog, data["clock"], pieces,
                   end=data.get("end", progmc.END),
                   bystander=data.get("bystander", False))
    return bad or None
