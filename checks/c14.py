"""C14 - draws are a pure function of parameters and stream output, within the
support.

Environment-answer enumeration: a scripted StreamInterface delivers every
script of <= 3 uniforms over an alphabet of extreme and branch-reaching values
(then a benign tail) to every distribution class over a branch-reaching
parameter table; plus twin / interleaving / re-pointing experiments on
counting streams and the constructor domain table.
"""
import itertools
import math
import traceback

from vlib import common

LEVEL = "exploration"
EPS = 2.0 ** -53
ALPHA = [0.0, 5e-324, EPS, 0.25, 0.5, 0.75, 1 - EPS]
# thorough: also the smallest normal double, a small and an ordinary value on
# either side of the constants the samplers branch on (1/e, 1/2)
ALPHA_T = ALPHA + [2.2250738585072014e-308, 2.0 ** -30, 0.1,
                   0.36787944117144233, 0.6, 0.9, 1 - 2.0 ** -30]


def make_scripted():
    from pydsol.core.streams import StreamInterface

    class Scripted(StreamInterface):
        """answers come from a script, then from a benign periodic tail; counts
        what is consumed"""

        def __init__(self, script=(), tail=(0.3, 0.6, 0.45, 0.8, 0.15)):
            self.script = list(script)
            self.tail = tail
            self.i = 0

        def next_float(self):
            i = self.i
            self.i += 1
            if i < len(self.script):
                return self.script[i]
            if i > len(self.script) + 2000000:
                # a sampler that never returns must not hang the check
                raise RuntimeError("more than 2000000 stream numbers consumed"
                                   ": the draw does not return")
            return self.tail[(i - len(self.script)) % len(self.tail)]

        def next_bool(self):
            return self.next_float() < 0.5

        def next_int(self, lo, hi):
            return lo + math.floor((hi - lo + 1) * self.next_float())

        def seed(self):
            return 0

        def original_seed(self):
            return 0

        def set_seed(self, x):
            pass

        def reset(self):
            self.i = 0

        def save_state(self):
            return self.i

        def restore_state(self, st):
            self.i = st
    return Scripted


def make_real_scripted():
    """a real MersenneTwister whose wrapped generator is scripted (so that the
    library's own next_int / next_bool are in the loop); None when the
    wrapping attribute is not there"""
    import random as _random
    from pydsol.core.streams import MersenneTwister

    class Gen(_random.Random):
        def __init__(self, script, tail):
            super().__init__(12345)
            self.script = list(script)
            self.tail = tail
            self.i = 0

        def random(self):
            i = self.i
            self.i += 1
            if i < len(self.script):
                return self.script[i]
            return self.tail[(i - len(self.script)) % len(self.tail)]

    class RealScripted(MersenneTwister):
        def __init__(self, script=(), tail=(0.3, 0.6, 0.45, 0.8, 0.15)):
            super().__init__(1)
            self._random = Gen(script, tail)

        @property
        def i(self):
            return self._random.i
    probe = MersenneTwister(1)
    if not hasattr(probe, "_random"):
        return None
    return RealScripted


def make_sub_scripted():
    """a user subclass of MersenneTwister that overrides next_float (the
    documented way to plug in antithetic / scripted / counting numbers)"""
    from pydsol.core.streams import MersenneTwister

    class SubScripted(MersenneTwister):
        def __init__(self, script=(), tail=(0.3, 0.6, 0.45, 0.8, 0.15)):
            super().__init__(1)
            self.script = list(script)
            self.tail = tail
            self.i = 0

        def next_float(self):
            i = self.i
            self.i += 1
            if i < len(self.script):
                return self.script[i]
            if i > len(self.script) + 2000000:
                raise RuntimeError("the draw does not return")
            return self.tail[(i - len(self.script)) % len(self.tail)]
    return SubScripted


def weyl(k, a=0.6180339887498949, b=0.137):
    """deterministic equidistributed sequence in (0,1) for multi-draw runs"""
    return [((i + 1) * a + b) % 1.0 for i in range(k)]


def cases():
    from pydsol.core import distributions as D
    nn = lambda x: isinstance(x, float) and x >= 0 and not math.isnan(x)  # noqa

    def within(lo, hi):
        return lambda x: isinstance(x, float) and lo <= x <= hi

    def iwithin(lo, hi):
        return lambda x: isinstance(x, int) and not isinstance(x, bool) \
            and lo <= x <= hi
    inn = lambda x: isinstance(x, int) and not isinstance(x, bool) and x >= 0  # noqa
    fin = lambda x: isinstance(x, float) and math.isfinite(x)  # noqa
    C = [
        ("Bernoulli(0.0)", lambda s: D.DistBernoulli(s, 0.0), iwithin(0, 1)),
        ("Bernoulli(0.3)", lambda s: D.DistBernoulli(s, 0.3), iwithin(0, 1)),
        ("Bernoulli(1.0)", lambda s: D.DistBernoulli(s, 1.0), iwithin(0, 1)),
        ("Beta(0.5,0.5)", lambda s: D.DistBeta(s, 0.5, 0.5), within(0, 1)),
        ("Beta(1,1)", lambda s: D.DistBeta(s, 1.0, 1.0), within(0, 1)),
        # regimes with their own code path (interplay parts only: '@big')
        ("Beta(1e-5,2e-5)@big", lambda s: D.DistBeta(s, 1e-5, 2e-5),
         within(0, 1)),
        ("Beta(1e-300,1e-300)@big", lambda s: D.DistBeta(s, 1e-300, 1e-300),
         within(0, 1)),
        ("Pearson6(1e-300,1e-300,1)@big",
         lambda s: D.DistPearson6(s, 1e-300, 1e-300, 1.0), nn),
        ("Poisson(1000)@big", lambda s: D.DistPoisson(s, 1000.0), inn),
        ("Poisson(2100)@big", lambda s: D.DistPoisson(s, 2100), inn),
        ("Beta(2,3)", lambda s: D.DistBeta(s, 2.0, 3.0), within(0, 1)),
        ("Beta(3,1)", lambda s: D.DistBeta(s, 3.0, 1.0), within(0, 1)),
        ("Binomial(3,0.3)", lambda s: D.DistBinomial(s, 3, 0.3),
         iwithin(0, 3)),
        ("Binomial(4,0.0)", lambda s: D.DistBinomial(s, 4, 0.0),
         iwithin(0, 4)),
        ("Binomial(2,1.0)", lambda s: D.DistBinomial(s, 2, 1.0),
         iwithin(0, 2)),
        ("Constant(4.2)", lambda s: D.DistConstant(s, 4.2),
         lambda x: x == 4.2),
        ("DiscreteUniform(-2,3)", lambda s: D.DistDiscreteUniform(s, -2, 3),
         iwithin(-2, 3)),
        ("DiscreteUniform(5,6)", lambda s: D.DistDiscreteUniform(s, 5, 6),
         iwithin(5, 6)),
        ("DiscreteUniform(-6,-1)@MT",
         lambda s: D.DistDiscreteUniform(s, -6, -1), iwithin(-6, -1)),
        ("DiscreteUniform(-3,3)@MT",
         lambda s: D.DistDiscreteUniform(s, -3, 3), iwithin(-3, 3)),
        ("DiscreteUniform(2^53+1,2^53+3)@MT",
         lambda s: D.DistDiscreteUniform(s, 2 ** 53 + 1, 2 ** 53 + 3),
         iwithin(2 ** 53 + 1, 2 ** 53 + 3)),
        ("Bernoulli(0.3)@MT", lambda s: D.DistBernoulli(s, 0.3),
         iwithin(0, 1)),
        ("Erlang(2,1)", lambda s: D.DistErlang(s, 2.0, 1), nn),
        ("Erlang(2,3)", lambda s: D.DistErlang(s, 2.0, 3), nn),
        ("Erlang(2,12)", lambda s: D.DistErlang(s, 2.0, 12), nn),
        ("Exponential(2)", lambda s: D.DistExponential(s, 2.0), nn),
        ("Gamma(0.5,2)", lambda s: D.DistGamma(s, 0.5, 2.0), nn),
        ("Gamma(1,2)", lambda s: D.DistGamma(s, 1.0, 2.0), nn),
        ("Gamma(2.5,2)", lambda s: D.DistGamma(s, 2.5, 2.0), nn),
        ("Geometric(0.3)", lambda s: D.DistGeometric(s, 0.3), inn),
        ("Geometric(1.0)", lambda s: D.DistGeometric(s, 1.0), inn),
        ("LogNormal(0,1)", lambda s: D.DistLogNormal(s, 0.0, 1.0), nn),
        ("NegBinomial(2,0.3)", lambda s: D.DistNegBinomial(s, 2, 0.3), inn),
        ("NegBinomial(2,1.0)", lambda s: D.DistNegBinomial(s, 2, 1.0), inn),
        ("Normal(1,2)", lambda s: D.DistNormal(s, 1.0, 2.0), fin),
        ("NormalTrunc(0,1,-1,2)",
         lambda s: D.DistNormalTrunc(s, 0.0, 1.0, -1.0, 2.0), within(-1, 2)),
        ("NormalTrunc(0,1,lo=0.5)",
         lambda s: D.DistNormalTrunc(s, 0.0, 1.0, lo=0.5),
         within(0.5, math.inf)),
        ("NormalTrunc(0,1,hi=0.5)",
         lambda s: D.DistNormalTrunc(s, 0.0, 1.0, hi=0.5),
         within(-math.inf, 0.5)),
        ("NormalTrunc(10,1,-100,100)",
         lambda s: D.DistNormalTrunc(s, 10.0, 1.0, -100.0, 100.0),
         within(-100, 100)),
        ("Pearson5(2,3)", lambda s: D.DistPearson5(s, 2.0, 3.0), nn),
        ("Pearson6(2,3,1.5)", lambda s: D.DistPearson6(s, 2.0, 3.0, 1.5), nn),
        ("Poisson(2)", lambda s: D.DistPoisson(s, 2.0), inn),
        ("Poisson(0.1)", lambda s: D.DistPoisson(s, 0.1), inn),
        ("Triangular(1,2,4)", lambda s: D.DistTriangular(s, 1.0, 2.0, 4.0),
         within(1, 4)),
        ("Triangular(1,1,4)", lambda s: D.DistTriangular(s, 1.0, 1.0, 4.0),
         within(1, 4)),
        ("Triangular(1,4,4)", lambda s: D.DistTriangular(s, 1.0, 4.0, 4.0),
         within(1, 4)),
        ("Uniform(1,4)", lambda s: D.DistUniform(s, 1.0, 4.0), within(1, 4)),
        ("Weibull(1.5,2)", lambda s: D.DistWeibull(s, 1.5, 2.0), nn),
        ("Weibull(0.5,2)", lambda s: D.DistWeibull(s, 0.5, 2.0), nn),
    ]
    return C


def raising_site(ex):
    """text of the innermost source line inside distributions.py / utils.py
    (stable against line-number shifts)"""
    tb = traceback.extract_tb(ex.__traceback__)
    for fr in reversed(tb):
        if fr.filename.endswith(("distributions.py", "utils.py",
                                 "streams.py")):
            return "%s: %s" % (fr.name, (fr.line or "").strip())
    return "(outside library)"


ALPHA_NOW = ALPHA


def script_worker(task):
    global ALPHA_NOW
    lo, hi, alpha, maxlen = task
    ALPHA_NOW = alpha
    Scripted0 = make_scripted()
    Real = make_real_scripted()
    n = 0
    viols = []
    nontriv = 0
    for name, mk, support in cases()[lo:hi]:
        try:
            with common.time_limit(20 if len(alpha) <= len(ALPHA) else 900,
                                   "drawing from %s" % name):
                a_, b_ = _script_case(name, mk, support, Scripted0, Real,
                                      alpha, maxlen, viols)
                n += a_
                nontriv += b_
        except common.LibraryHang as ex:
            viols.append(("C14:draw-does-not-return:%s" % name.split("(")[0],
                          "%s: %s" % (name, ex), {"case": name, "script": []},
                          0))
    # collapse
    best = {}
    cnt = {}
    for v in viols:
        rank = v[3] if len(v) > 3 else 0
        cnt[v[0]] = cnt.get(v[0], 0) + 1
        if v[0] not in best or rank < best[v[0]][3]:
            best[v[0]] = (v[0], v[1], v[2], rank)
    return n, nontriv, [b + (cnt[b[0]],) for b in best.values()]


def _script_case(name, mk, support, Scripted0, Real, alpha, maxlen, viols):
    n = 0
    nontriv = 0
    SubS = make_sub_scripted()
    if name.endswith("@big"):
        return 0, 0      # thousands of numbers per draw: interplay parts only
    if True:
        Scripted = Scripted0
        if name.endswith("@MT"):
            if Real is None:
                return 0, 0
            Scripted = Real
        seen_sig = set()
        for L in range(1, maxlen + 1):
            for script in itertools.product(alpha, repeat=L):
                n += 1
                st = Scripted(script)
                try:
                    d = mk(st)
                except Exception as ex:  # noqa
                    sig = "C14:construct-raises:%s:%s:%s" % (
                        name, type(ex).__name__, raising_site(ex))
                    if sig not in seen_sig:
                        seen_sig.add(sig)
                        viols.append((sig, "%s: constructing a documented-"
                                      "valid parameter set raises %s: %s" % (
                                          name, type(ex).__name__, ex),
                                      {"case": name, "script": []}))
                    break
                try:
                    x = d.draw()
                except Exception as ex:  # noqa
                    used = list(script[:st.i])
                    # what kind of stream output triggered it is part of the
                    # identity of a finding
                    if 0.0 in used:
                        trig = "zero-uniform"
                    elif 5e-324 in used:
                        trig = "subnormal-uniform"
                    elif used[:2] == [0.5, 0.5]:
                        trig = "polar-pair-half-half"
                    else:
                        trig = "ordinary-uniforms"
                    sig = "C14:draw-raises:%s:%s:%s:%s" % (
                        name.split("(")[0], type(ex).__name__,
                        raising_site(ex), trig)
                    viols.append((sig, "%s: draw() raises %s (%s) for stream "
                                  "output %s" % (name, type(ex).__name__, ex,
                                                 used),
                                  {"case": name, "script": used},
                                  len(used)))
                    continue
                used = st.i
                if used >= 2:
                    nontriv += 1
                # the next draw of the same instance (left-over script, then
                # the tail): samplers with a spare value or helper objects
                x_next = None
                if used < len(script):
                    try:
                        x_next = d.draw()
                        if not support(x_next):
                            viols.append((
                                "C14:outside-support:%s" % name,
                                "%s: second draw %r outside the support for "
                                "stream output %s" % (name, x_next,
                                                      list(script[:st.i])),
                                {"case": name, "script": list(script[:st.i]),
                                 "draws": 2}, st.i))
                    except Exception as ex:  # noqa
                        sig = "C14:draw-raises:%s:%s:%s:%s" % (
                            name.split("(")[0], type(ex).__name__,
                            raising_site(ex), "second-draw")
                        viols.append((sig, "%s: second draw() raises %s (%s) "
                                      "for stream output %s" % (
                                          name, type(ex).__name__, ex,
                                          list(script[:st.i])),
                                      {"case": name,
                                       "script": list(script[:st.i]),
                                       "draws": 2}, st.i))
                if not support(x):
                    viols.append(("C14:outside-support:%s" % name,
                                  "%s: draw %r outside the support for stream "
                                  "output %s" % (name, x,
                                                 list(script[:used])),
                                  {"case": name,
                                   "script": list(script[:used])}, used))
                # the same numbers delivered by a user subclass of the
                # standard stream that overrides next_float
                if not name.startswith("DiscreteUniform") and \
                        not name.endswith("@MT") and len(script) <= 3:
                    st3 = SubS(script)
                    try:
                        x3 = mk(st3).draw()
                        if not (x3 == x or (x != x and x3 != x3)) or \
                                st3.i != used:
                            viols.append((
                                "C14:numbers-of-a-stream-subclass-ignored:%s"
                                % name.split("(")[0],
                                "%s: on a MersenneTwister subclass that "
                                "delivers %s through next_float the draw is "
                                "%r (%d numbers taken) instead of %r (%d)" % (
                                    name, list(script[:used]), x3, st3.i, x,
                                    used),
                                {"case": name, "script": list(script)}, used))
                    except Exception:  # noqa
                        pass
                # twin on an identically scripted stream
                st2 = Scripted(script)
                try:
                    d2 = mk(st2)
                    x2 = d2.draw()
                    if x_next is not None and st2.i == used:
                        y2 = d2.draw()
                        if not (y2 == x_next or (y2 != y2
                                                 and x_next != x_next)) \
                                or st2.i != st.i:
                            x2 = ("second draw", y2)
                    if not (x2 == x or (x != x and x2 != x2)) or \
                            (x_next is None and st2.i != used):
                        viols.append(("C14:twin-differs:%s" % name,
                                      "%s: twin instance gives %r/%d uniforms "
                                      "instead of %r/%d" % (name, x2, st2.i,
                                                            x, used),
                                      {"case": name,
                                       "script": list(script)}, used))
                except Exception:  # noqa
                    pass
    return n, nontriv


def _limited(iterable, name, viols, seconds=None):
    """iterate under a wall-clock limit per case: a sampler that never
    returns (without even consuming stream numbers) becomes a violation"""
    it = iter(iterable)
    if seconds is None:
        seconds = 20 if len(ALPHA_NOW) <= len(ALPHA) else 900
    try:
        with common.time_limit(seconds, "drawing from %s" % name):
            for x in it:
                yield x
    except common.LibraryHang as ex:
        viols.append(("C14:draw-does-not-return:%s" % name.split("(")[0],
                      "%s: %s" % (name, ex), {"case": name, "script": []}, 0))


def seq_of(d, k):
    out = []
    for _ in range(k):
        try:
            out.append(d.draw())
        except Exception as ex:  # noqa
            out.append("raised " + type(ex).__name__)
    return out


def interplay_worker(task):
    lo, hi = task
    Scripted = make_scripted()
    C = cases()
    partners = [c for c in C if c[0] in ("Normal(1,2)", "LogNormal(0,1)",
                                         "Gamma(2.5,2)", "Binomial(3,0.3)",
                                         "Erlang(2,12)")]
    n = 0
    viols = []
    K = 5
    for name, mk, support in C[lo:hi]:
        if name in ("Geometric(0.0)", "Geometric(1.0)", "NegBinomial(2,0.0)",
                    "NegBinomial(2,1.0)") or name.endswith("@MT"):
            continue
        try:
            with common.time_limit(30, "drawing from %s" % name):
                n += _interplay_case(name, mk, support, partners, Scripted,
                                     K, viols)
        except common.LibraryHang as ex:
            viols.append(("C14:draw-does-not-return:%s" % name.split("(")[0],
                          "%s: %s" % (name, ex), {"case": name}))
    return n, viols


def _interplay_case(name, mk, support, partners, Scripted, K, viols):
    n = 0
    if True:
        alone = seq_of(mk(Scripted(weyl(200))), K)
        # (a) same parameters on equally delivering streams, instances
        #     created in the presence of other instances
        for pname, pmk, _ in partners + [(name, mk, support)]:
            for first in ("X", "Y"):
                n += 1
                sx = Scripted(weyl(200))
                sy = Scripted(weyl(200, 0.754877666, 0.31))
                x = mk(sx)
                y = pmk(sy)
                y_alone = seq_of(pmk(Scripted(weyl(200, 0.754877666, 0.31))),
                                 K)
                gx, gy = [], []
                for i in range(K):
                    for who in (("X", "Y") if first == "X" else ("Y", "X")):
                        try:
                            if who == "X":
                                gx.append(x.draw())
                            else:
                                gy.append(y.draw())
                        except Exception as ex:  # noqa
                            (gx if who == "X" else gy).append(
                                "raised " + type(ex).__name__)
                if gx != alone or gy != y_alone:
                    viols.append(("C14:instances-influence-each-other:%s" %
                                  name.split("(")[0],
                                  "%s interleaved with %s (first %s): draws "
                                  "%s / %s, alone %s / %s" % (
                                      name, pname, first, gx, gy, alone,
                                      y_alone),
                                  {"case": name, "partner": pname}))
        # (b) re-pointing at another stream
        for before in (0, 1, 2, 3):
            for switches in (1, 2):
                n += 1
                s1 = Scripted(weyl(300))
                d = mk(s1)
                seq_of(d, before)
                used1 = s1.i
                news = [Scripted(weyl(300, 0.754877666, 0.11 * (j + 1)))
                        for j in range(switches)]
                got = None
                for j, s2 in enumerate(news):
                    try:
                        d.stream = s2
                    except Exception as ex:  # noqa
                        viols.append(("C14:repoint-raises:%s" % name,
                                      "%s: assigning .stream raises %s" % (
                                          name, type(ex).__name__),
                                      {"case": name}))
                        break
                    got = seq_of(d, K)
                    fresh = seq_of(mk(Scripted(weyl(
                        300, 0.754877666, 0.11 * (j + 1)))), K)
                    if s1.i != used1:
                        viols.append((
                            "C14:old-stream-consumed-after-repointing:%s"
                            % name.split("(")[0],
                            "%s: after %d draws and .stream = new, the old "
                            "stream delivered %d more numbers" % (
                                name, before, s1.i - used1),
                            {"case": name, "before": before}))
                    if j > 0 and news[j - 1].i != prev_used:
                        viols.append((
                            "C14:old-stream-consumed-after-repointing:%s"
                            % name.split("(")[0],
                            "%s: second re-pointing still consumes the "
                            "previous stream" % name,
                            {"case": name, "before": before}))
                    if got != fresh and name != "Constant(4.2)":
                        viols.append((
                            "C14:draws-after-repointing-not-those-of-new-"
                            "stream:%s" % name.split("(")[0],
                            "%s: after %d draws and .stream = new: %s, a "
                            "fresh instance on an equal stream: %s" % (
                                name, before, got, fresh),
                            {"case": name, "before": before}))
                    if d.stream is not s2:
                        viols.append(("C14:stream-getter:%s" % name,
                                      "%s: .stream does not return the new "
                                      "stream" % name, {"case": name}))
                    prev_used = s2.i
        # (c) a clone (copy.copy, as a prototype per component) re-pointed at
        #     its own stream: original and clone are two instances
        import copy
        for before in (0, 1, 2):
            for how in ("copy", "deepcopy"):
                n += 1
                s1 = Scripted(weyl(300))
                d = mk(s1)
                seq_of(d, before)
                try:
                    cl = copy.copy(d) if how == "copy" else copy.deepcopy(d)
                    s2 = Scripted(weyl(300, 0.754877666, 0.11))
                    cl.stream = s2
                except Exception as ex:  # noqa
                    continue          # cloning is not part of the property
                gd, gc = [], []
                for i in range(K):
                    gc += seq_of(cl, 1)
                    gd += seq_of(d, 1)
                ref_d = mk(Scripted(weyl(300)))
                seq_of(ref_d, before)
                exp_d = seq_of(ref_d, K)
                exp_c = seq_of(mk(Scripted(weyl(300, 0.754877666, 0.11))), K)
                if (gd != exp_d or gc != exp_c) and name != "Constant(4.2)":
                    viols.append((
                        "C14:clone-on-its-own-stream-influences-original:%s"
                        % name.split("(")[0],
                        "%s: %s after %d draws, clone.stream = new, then "
                        "alternating draws: original %s (alone: %s), clone "
                        "%s (fresh on an equal stream: %s)" % (
                            name, how, before, gd, exp_d, gc, exp_c),
                        {"case": name, "before": before}))
        # (e) operations that are refused or fail half-way leave no trace:
        #     a refused stream assignment; a stream that raises in the
        #     middle of a draw (the next draw behaves like that of a fresh
        #     instance on the same stream position)
        for before in (0, 1, 2, 3):
            for badstream in (None, "s", 5, object):
                n += 1
                s1 = Scripted(weyl(300))
                d = mk(s1)
                seq_of(d, before)
                try:
                    d.stream = badstream
                    viols.append(("C14:non-stream-assigned:%s"
                                  % name.split("(")[0], "%s: .stream = %r "
                                  "accepted" % (name, badstream),
                                  {"case": name}))
                    continue
                except Exception:  # noqa
                    pass
                got = seq_of(d, K)
                tw = mk(Scripted(weyl(300)))
                seq_of(tw, before)
                exp = seq_of(tw, K)
                if got != exp or d.stream is not s1:
                    viols.append((
                        "C14:refused-stream-assignment-left-a-trace:%s"
                        % name.split("(")[0],
                        "%s: after %d draws a refused .stream = %r: next "
                        "draws %s, twin without the attempt %s" % (
                            name, before, badstream, got, exp),
                        {"case": name, "before": before}))
            for fail_at in (0, 1, 2):
                n += 1

                class Failing(Scripted):
                    armed = True

                    def next_float(self_):
                        if self_.armed and self_.i == before_i + fail_at:
                            self_.armed = False
                            raise RuntimeError("stream failure")
                        return super().next_float()
                s1 = Failing(weyl(300))
                d = mk(s1)
                seq_of(d, before)
                before_i = s1.i
                try:
                    d.draw()
                    continue          # the draw did not reach the failure
                except RuntimeError:
                    pass
                except Exception:  # noqa
                    continue
                pos = s1.i
                got = seq_of(d, 2)
                s2 = Scripted(weyl(300))
                s2.i = pos
                exp = seq_of(mk(s2), 2)
                if got != exp:
                    viols.append((
                        "C14:failed-draw-left-a-trace:%s"
                        % name.split("(")[0],
                        "%s: after %d draws the stream fails at its %d-th "
                        "next number; the following draws are %s, a fresh "
                        "instance at the same stream position draws %s" % (
                            name, before, fail_at + 1, got, exp),
                        {"case": name, "before": before}))
        # (d) a real stream that is re-seeded (with the seed it already has,
        #     with another one, by reset) makes the distribution repeat
        #     exactly what a fresh instance on a fresh stream draws
        from pydsol.core.streams import MersenneTwister
        for before in (1, 3):
            for how in ("same-seed", "other-seed", "reset"):
                n += 1
                try:
                    s1 = MersenneTwister(11)
                    d = mk(s1)
                    seq_of(d, before)
                    if how == "same-seed":
                        s1.set_seed(11)
                    elif how == "other-seed":
                        s1.set_seed(12)
                    else:
                        s1.reset()
                    d.stream = s1       # (drops a cached spare value)
                    got = seq_of(d, K)
                    fresh = seq_of(mk(MersenneTwister(
                        12 if how == "other-seed" else 11)), K)
                except Exception:  # noqa
                    continue
                if got != fresh and name != "Constant(4.2)":
                    viols.append((
                        "C14:equally-seeded-streams-give-different-draws:%s"
                        % how,
                        "%s: after %d draws and %s on a MersenneTwister(11): "
                        "%s, fresh instance on a fresh stream: %s" % (
                            name, before, how, got, fresh),
                        {"case": name, "before": before}))
    return n


def extreme_parameter_cases():
    from pydsol.core import distributions as D
    nn = lambda x: isinstance(x, float) and x >= 0 and not math.isnan(x)  # noqa
    unit = lambda x: isinstance(x, float) and 0 <= x <= 1  # noqa
    inn = lambda x: isinstance(x, int) and not isinstance(x, bool) and x >= 0  # noqa
    return [
        ("Gamma(1e-3,5)", lambda s: D.DistGamma(s, 1e-3, 5.0), nn),
        ("Gamma(1e6,1)", lambda s: D.DistGamma(s, 1e6, 1.0), nn),
        ("Beta(1e-3,1e-3)", lambda s: D.DistBeta(s, 1e-3, 1e-3), unit),
        ("Beta(1e3,1e3)", lambda s: D.DistBeta(s, 1e3, 1e3), unit),
        ("Pearson5(1e-3,1)", lambda s: D.DistPearson5(s, 1e-3, 1.0), nn),
        ("Pearson5(1e3,1)", lambda s: D.DistPearson5(s, 1e3, 1.0), nn),
        ("Pearson6(2,1e-3,1)", lambda s: D.DistPearson6(s, 2.0, 1e-3, 1.0),
         nn),
        ("Pearson6(1e-3,2,1)", lambda s: D.DistPearson6(s, 1e-3, 2.0, 1.0),
         nn),
        ("Weibull(0.01,1)", lambda s: D.DistWeibull(s, 0.01, 1.0), nn),
        ("Weibull(1e3,1)", lambda s: D.DistWeibull(s, 1e3, 1.0), nn),
        ("Exponential(1e300)", lambda s: D.DistExponential(s, 1e300), nn),
        ("Erlang(1,1000)", lambda s: D.DistErlang(s, 1.0, 1000), nn),
        ("Erlang(1e-3,9)", lambda s: D.DistErlang(s, 1e-3, 9), nn),
        ("LogNormal(0,100)", lambda s: D.DistLogNormal(s, 0.0, 100.0), nn),
        ("Binomial(2000,0.5)", lambda s: D.DistBinomial(s, 2000, 0.5), inn),
        ("Poisson(1e-9)", lambda s: D.DistPoisson(s, 1e-9), inn),
        ("Poisson(700)", lambda s: D.DistPoisson(s, 700.0), inn),
        ("Geometric(1e-12)", lambda s: D.DistGeometric(s, 1e-12), inn),
        ("Geometric(1-1e-16)", lambda s: D.DistGeometric(s, 1 - 1e-16), inn),
        ("NegBinomial(500,0.5)", lambda s: D.DistNegBinomial(s, 500, 0.5),
         inn),
    ]


def extreme_parameter_worker(idx):
    """valid parameters at the extremes of the documented domain on an
    ordinary (equidistributed, deterministic) stream: 400 consecutive draws
    must not raise and must stay in the support"""
    Scripted = make_scripted()
    name, mk, support = extreme_parameter_cases()[idx]
    viols = []
    n = 0
    try:
        d = mk(Scripted(weyl(200000)))
    except Exception as ex:  # noqa
        return 1, [("C14:extreme-parameters-rejected:%s:%s" % (
            name, type(ex).__name__), "%s: documented-valid parameters are "
            "rejected: %s" % (name, ex), {"part": "extreme", "case": name})]
    for i in range(400):
        n += 1
        try:
            with common.time_limit(10, "drawing from %s" % name):
                x = d.draw()
        except common.LibraryHang as ex:
            viols.append(("C14:draw-does-not-return:%s" % name.split("(")[0],
                          "%s: draw #%d: %s" % (name, i, ex),
                          {"part": "extreme", "case": name}))
            break
        except Exception as ex:  # noqa
            viols.append(("C14:draw-raises:%s:%s:%s:extreme-parameters" % (
                name.split("(")[0], type(ex).__name__, raising_site(ex)),
                "%s: draw #%d on an ordinary stream raises %s: %s" % (
                    name, i, type(ex).__name__, ex),
                {"part": "extreme", "case": name}))
            break
        if not support(x):
            viols.append(("C14:outside-support:%s" % name,
                          "%s: draw #%d = %r outside the support" % (name, i,
                                                                     x),
                          {"part": "extreme", "case": name}))
            break
    return n, viols


# ---- systematic grid of extreme (but documented-valid) parameters
EXT = [1e-300, 1e-17, 1e-3, 1.0, 1e3, 1e17, 1e300]
EXT_MU = [-1e300, -1e3, 0.0, 1e3, 1e300]
P01 = [1e-300, 1e-17, 1e-3, 0.5, 1 - 1e-3, 1 - 2.0 ** -53, 1.0]
SMALL_INTS = [1, 2, 1000]


def grid_families():
    from pydsol.core import distributions as D
    nn = lambda x: isinstance(x, float) and x >= 0  # noqa
    unit = lambda x: isinstance(x, float) and 0.0 <= x <= 1.0  # noqa
    fin = lambda x: isinstance(x, float) and x == x  # noqa
    inn = lambda x: isinstance(x, int) and not isinstance(x, bool) \
        and x >= 0  # noqa
    return {
        "Exponential": (D.DistExponential, [EXT], nn),
        "Weibull": (D.DistWeibull, [EXT, EXT], nn),
        "Gamma": (D.DistGamma, [EXT, EXT], nn),
        "Erlang": (D.DistErlang, [EXT, SMALL_INTS], nn),
        "Beta": (D.DistBeta, [EXT, EXT], unit),
        "Pearson5": (D.DistPearson5, [EXT, EXT], nn),
        "Pearson6": (D.DistPearson6, [EXT, EXT, EXT], nn),
        "LogNormal": (D.DistLogNormal, [EXT_MU, EXT], nn),
        "Normal": (D.DistNormal, [EXT_MU, EXT], fin),
        "Geometric": (D.DistGeometric, [P01], inn),
        "NegBinomial": (D.DistNegBinomial, [SMALL_INTS, P01], inn),
        "Binomial": (D.DistBinomial, [SMALL_INTS, [0.0] + P01], inn),
        "Bernoulli": (D.DistBernoulli, [[0.0] + P01], inn),
        "Poisson": (D.DistPoisson, [[1e-300, 1e-17, 1e-3, 1.0, 1e3, 1e4]],
                    inn),
        "Uniform": (D.DistUniform, [[-1e300, -1.0, 0.0], [1e-300, 1.0,
                                                           1e300]], fin),
    }


class _Budget(Exception):
    pass


def grid_worker(fam):
    """every combination of extreme parameter values of one class x every
    script of <= 2 extreme uniforms (then an ordinary tail) and one ordinary
    stream: construction succeeds, every draw returns within a budget of
    100000 stream numbers, does not raise, is not NaN and lies in the support"""
    import traceback
    Scripted = make_scripted()

    class Budgeted(Scripted):
        mark = 0

        def next_float(self):
            if self.i - self.mark > 100000:
                raise _Budget()
            return super().next_float()
    cls, doms, support = grid_families()[fam]
    scripts = [()] + [s for L in (1, 2)
                      for s in itertools.product(ALPHA, repeat=L)]
    tail = tuple(weyl(50))
    n = 0
    found = {}

    def bucket(a):
        if isinstance(a, int):
            return "n%d" % a
        return "tiny" if abs(a) < 1e-10 else "huge" if abs(a) > 1e10 \
            else "mid"
    for args in itertools.product(*doms):
        if fam == "Uniform" and not args[0] < args[1]:
            continue
        # the parameter regime is part of the identity of a finding
        reg = "-".join(bucket(a) for a in args)
        try:
            cls(Budgeted(()), *args)
        except Exception as ex:  # noqa
            found.setdefault(("rejected", type(ex).__name__, reg),
                             (args, (), str(ex)[:80]))
            n += 1
            continue
        for sc in scripts:
            n += 1
            st = Budgeted(sc, tail=tail)
            d = cls(st, *args)
            if ("draw-does-not-return", "", reg) in found:
                break
            try:
              with common.time_limit(10, "drawing"):
                for _ in range(3 if sc else 25):
                    st.mark = st.i
                    x = d.draw()
                    if isinstance(x, float) and x != x:
                        found.setdefault(("nan-draw", "", reg),
                                         (args, sc, repr(x)))
                    elif not support(x):
                        found.setdefault(("outside-support", "", reg),
                                         (args, sc, repr(x)))
            except common.LibraryHang as ex:
                found.setdefault(("draw-does-not-return", "", reg),
                                 (args, sc, str(ex)))
            except _Budget:
                found.setdefault(("draw-does-not-return", "", reg),
                                 (args, sc, "more than 100000 stream numbers "
                                  "consumed by one draw"))
            except Exception as ex:  # noqa
                tb = traceback.extract_tb(ex.__traceback__)[-1]
                found.setdefault(("draw-raises", type(ex).__name__,
                                  "%s:%s:%s" % (tb.name, tb.line, reg)),
                                 (args, sc, str(ex)[:80]))
    viols = []
    for (kind, exc, site), (args, sc, detail) in found.items():
        viols.append(("C14:extreme-grid:%s:%s:%s:%s" % (fam, kind, exc, site),
                      "Dist%s%r on stream output %s...: %s %s %s" % (
                          fam, args, list(sc), kind, exc, detail),
                      {"part": "grid", "family": fam}))
    return n, viols


def constructor_table():
    from pydsol.core import distributions as D
    Scripted = make_scripted()
    V = [-1, 0, 0.5, 1, 2, 10, -1.0, 0.0, 1.0, 2.0, "x", None]

    def isnum(x):
        return isinstance(x, (int, float)) and not isinstance(x, bool)

    def isint(x):
        return isinstance(x, int) and not isinstance(x, bool)
    DOM = {
        "DistBernoulli": (1, lambda p: isinstance(p, float) and 0 <= p <= 1),
        "DistBeta": (2, lambda a, b: isnum(a) and isnum(b) and a > 0
                     and b > 0),
        "DistBinomial": (2, lambda n, p: isint(n) and isinstance(p, float)
                         and n > 0 and 0 <= p <= 1),
        "DistConstant": (1, lambda c: isnum(c)),
        "DistDiscreteUniform": (2, lambda lo, hi: isint(lo) and isint(hi)
                                and lo < hi),
        "DistErlang": (2, lambda sc, k: isnum(sc) and isint(k) and sc > 0
                       and k > 0),
        "DistExponential": (1, lambda m: isnum(m) and m > 0),
        "DistGamma": (2, lambda sh, sc: isnum(sh) and isnum(sc) and sh > 0
                      and sc > 0),
        "DistGeometric": (1, lambda p: isinstance(p, float) and 0 < p <= 1),
        "DistLogNormal": (2, lambda mu, sg: isnum(mu) and isnum(sg)
                          and sg > 0),
        "DistNegBinomial": (2, lambda s, p: isint(s) and isinstance(p, float)
                            and s > 0 and 0 < p <= 1),
        "DistNormal": (2, lambda mu, sg: isnum(mu) and isnum(sg) and sg > 0),
        "DistPearson5": (2, lambda a, b: isnum(a) and isnum(b) and a > 0
                         and b > 0),
        "DistPearson6": (3, lambda a, b, c: isnum(a) and isnum(b) and isnum(c)
                         and a > 0 and b > 0 and c > 0),
        "DistPoisson": (1, lambda r: isnum(r) and r > 0),
        "DistTriangular": (3, lambda lo, mo, hi: isnum(lo) and isnum(mo)
                           and isnum(hi) and lo <= mo <= hi and lo < hi),
        "DistUniform": (2, lambda lo, hi: isnum(lo) and isnum(hi) and lo < hi),
        "DistWeibull": (2, lambda a, b: isnum(a) and isnum(b) and a > 0
                        and b > 0),
    }
    n = 0
    viols = []
    for cname, (k, dom) in DOM.items():
        cls = getattr(D, cname)
        for args in itertools.product(V, repeat=k):
            n += 1
            try:
                inside = bool(dom(*args))
            except TypeError:
                inside = False
            st = Scripted([])
            try:
                d = cls(st, *args)
                built = True
            except Exception as ex:  # noqa
                built = False
                err = ex
            if built and not inside:
                viols.append(("C14:invalid-parameters-accepted:%s" % cname,
                              "%s%r is outside the documented domain but was "
                              "accepted" % (cname, args),
                              {"class": cname, "args": list(args)}))
            elif not built and inside:
                viols.append(("C14:valid-parameters-rejected:%s:%s:%s" % (
                    cname, type(err).__name__, raising_site(err)),
                    "%s%r is inside the documented domain but construction "
                    "raises %s: %s" % (cname, args, type(err).__name__, err),
                    {"class": cname, "args": list(args)}))
            elif built and inside:
                try:
                    d.draw()
                except Exception as ex:  # noqa
                    viols.append(("C14:valid-parameters-unusable:%s:%s:%s" % (
                        cname, type(ex).__name__, raising_site(ex)),
                        "%s%r constructs but a benign draw raises %s: %s" % (
                            cname, args, type(ex).__name__, ex),
                        {"class": cname, "args": list(args)}))
        # the stream argument
        n += 1
        try:
            good = next(a for a in itertools.product(V, repeat=k)
                        if _safe(dom, a))
            cls("not a stream", *good)
            viols.append(("C14:non-stream-accepted:%s" % cname,
                          "%s accepts a non-stream" % cname,
                          {"class": cname}))
        except TypeError:
            pass
        except StopIteration:
            pass
        except Exception as ex:  # noqa
            viols.append(("C14:non-stream-wrong-exception:%s" % cname,
                          "%s: %s" % (cname, type(ex).__name__),
                          {"class": cname}))
    return n, viols


def _safe(dom, a):
    try:
        return bool(dom(*a))
    except TypeError:
        return False


def run(ctx):
    nc = len(cases())
    step = 2
    tasks = [(i, min(nc, i + step)) for i in range(0, nc, step)]
    quick = ctx.tier == "quick"
    alpha, maxlen = (ALPHA, 5) if quick else (ALPHA_T, 5)
    total = nontriv = 0
    for n, nt, viols in common.pimap(
            script_worker, [(i, min(nc, i + 1), alpha, maxlen)
                            for i in range(nc)]):
        total += n
        nontriv += nt
        for sig, what, rep, rank, count in viols:
            ctx.violation(sig, what, rep, rank, count)
    ctx.part("scripted uniforms", cases=nc, scripts=total,
             max_script_length=maxlen, alphabet=[repr(a) for a in alpha])
    ni = 0
    for n, viols in common.pimap(interplay_worker, tasks):
        ni += n
        for v in viols:
            ctx.violation(v[0], v[1], dict(v[2], part="interplay"))
    ctx.part("twin / interleaving / re-pointing experiments", runs=ni)
    ne = 0
    for n, viols in common.pimap(extreme_parameter_worker,
                                 range(len(extreme_parameter_cases()))):
        ne += n
        for v in viols:
            ctx.violation(v[0], v[1], v[2])
    ctx.part("extreme parameters on an ordinary stream", draws=ne,
             cases=len(extreme_parameter_cases()))
    ng = 0
    for n, viols in common.pimap(grid_worker, sorted(grid_families())):
        ng += n
        for v in viols:
            ctx.violation(v[0], v[1], v[2])
    ctx.part("systematic grid of extreme parameters", runs=ng,
             real_values=EXT, probabilities=P01)
    nk, viols = constructor_table()
    for v in viols:
        ctx.violation(v[0], v[1], dict(v[2], part="constructor"))
    ctx.part("constructor domain table", tuples=nk)
    ctx.sample({"case": "Gamma(2.5,2)", "script": [0.25, 1 - EPS, 5e-324]})
    ctx.sample({"case": "Normal(1,2) re-pointed after 1 draw (cached spare)"})
    ctx.coverage.update(
        evaluations=total + ni + nk + ne + ng, distinct_nontrivial=nontriv,
        rule="%d (class, parameter) cases reaching every sampler branch x all "
        "scripts of length <= 5 over the uniform alphabet %s followed by a "
        "benign tail, one draw and (when script is left over) a second draw "
        "of the same instance: no exception, value in the support, twin "
        "instance on an identically scripted stream returns the same values "
        "and consumes the same count. Every case interleaved with 6 partner instances (both "
        "orders) must draw what it draws alone; re-pointing after 0..3 draws "
        "(once, twice): old stream never consumed again, draws equal those of "
        "a fresh instance on an equal stream. Constructor table: every tuple "
        "over {-1,0,0.5,1,2,10,-1.0,0.0,1.0,2.0,'x',None} vs the documented "
        "domain. distinct_nontrivial = scripts whose draw consumed >= 2 "
        "uniforms." % (nc, [repr(a) for a in alpha]))
    ctx.assumptions += [
        "NaN / inf parameters are unspecified (docstrings say '<= 0 raises')",
        "signatures of raising draws name the class, the exception and the "
        "raising source line, so a new crash site is a new violation"]


def replay(data):
    Scripted = make_scripted()
    if data.get("part") == "constructor":
        n, v = constructor_table()
        v = [x for x in v if x[2].get("class") == data.get("class")]
        return [x[1] for x in v[:3]] or None
    if data.get("part") == "grid":
        return [x[1] for x in grid_worker(data["family"])[1]] or None
    if data.get("part") == "extreme":
        for i, cse in enumerate(extreme_parameter_cases()):
            if cse[0] == data["case"]:
                n, v = extreme_parameter_worker(i)
                return [x[1] for x in v] or None
        return None
    if data.get("part") == "interplay":
        idx = [i for i, c in enumerate(cases()) if c[0] == data["case"]]
        n, v = interplay_worker((idx[0], idx[0] + 1))
        return [x[1] for x in v[:3]] or None
    for name, mk, support in cases():
        if name == data["case"]:
            st = Scripted(data["script"])
            try:
                x = mk(st).draw()
            except Exception as ex:  # noqa
                return [("raises", type(ex).__name__, str(ex))]
            if not support(x):
                return [("outside-support", x)]
            st2 = Scripted(data["script"])
            x2 = mk(st2).draw()
            if x2 != x or st2.i != st.i:
                return [("twin-differs", x, x2)]
    return None
