"""C13 - seed updates depend only on stream name, seed and replication number.

Exhaustive table of configurations (stream-name sets x original seeds x
replication numbers x seed tables x listing orders x stream histories) for
SimpleStreamUpdater and StreamSeedUpdater (+ default / replaced fallback),
evaluated (a) in this process with the module-level `hash` seen by streams.py
replaced by each of several answers, and (b) in fresh interpreter processes
with different PYTHONHASHSEED values; all evaluations must agree and satisfy
the per-configuration oracle.
"""
import itertools
import json
import os
import subprocess
import sys

LEVEL = "exploration"

NAME_SETS = [["default"], ["default", "arrivals"], ["b", "a", "ünï"],
             ["", "x"], ["service", "default", "zz"]]
ORIG = [0, 10, -7, 2 ** 40]
REPS = [0, 1, 3, 2, -1, -2, 1.0, "1", None]


def draws(s):
    return [s.next_float().hex(), s.next_int(0, 1000), s.next_bool(),
            s.next_float().hex()]


def outcome(f):
    try:
        f()
        return "ok"
    except TypeError:
        return "TypeError"
    except ValueError:
        return "ValueError"
    except Exception as ex:  # noqa
        return "other:" + type(ex).__name__


def tables_for(names):
    """seed tables: none listed / all listed / first listed / last listed
    with a short list"""
    full = {n: [1000 + 10 * i + k for k in range(4)]
            for i, n in enumerate(names)}
    out = [("none", {}), ("all", full),
           ("first", {names[0]: full[names[0]]}),
           ("short-last", {names[-1]: full[names[-1]][:2]}),
           # a stream listed with no seed at all: every replication number
           # lies beyond its list
           ("empty-last", {names[-1]: []})]
    return out


def evaluate_all(limit_orders=None):
    """returns (results dict, list of oracle violations)"""
    from pydsol.core.streams import (MersenneTwister, SimpleStreamUpdater,
                                     StreamSeedUpdater, StreamUpdater)
    res = {}
    bad = []

    def fresh(names):
        return {n: MersenneTwister(ORIG[i % len(ORIG)])
                for i, n in enumerate(names)}

    class Recording(StreamUpdater):
        def __init__(self):
            self.calls = []

        def update_seed(self, key, stream, replication_nr):
            self.calls.append((key, replication_nr))
            stream.set_seed(777000 + replication_nr)

    class Recording2(SimpleStreamUpdater):
        """a fallback derived from the standard one that overrides it"""

        def __init__(self):
            super().__init__()
            self.calls = []

        def update_seed(self, key, stream, replication_nr):
            self.calls.append((key, replication_nr))
            stream.set_seed(777000 + replication_nr)

    for names in NAME_SETS:
        orders = list(itertools.permutations(names))
        if limit_orders:
            orders = orders[:limit_orders]
        for r in REPS:
            valid_r = isinstance(r, int) and not isinstance(r, bool) \
                and r >= 0
            # ---------------- SimpleStreamUpdater
            per_order = []
            for order in orders:
                st = fresh(names)
                d = {n: st[n] for n in order}
                before = {n: st[n].seed() for n in names}
                out = outcome(lambda: SimpleStreamUpdater().update_seeds(d, r))
                rec = {n: (st[n].seed(), draws(st[n])) for n in names}
                per_order.append((out, rec))
                key = "simple|%s|%r|%s" % ("/".join(names), r,
                                           "/".join(order))
                res[key] = [out, {n: rec[n][0] for n in names}]
                if valid_r:
                    if out != "ok":
                        bad.append(("valid-replication-refused", key, out))
                else:
                    want = "ValueError" if isinstance(r, int) else "TypeError"
                    if out != want:
                        bad.append(("invalid-replication-%s" % out, key, want))
                    for n in names:
                        if rec[n][0] != before[n]:
                            bad.append(("refused-update-changed-seed", key, n,
                                        before[n], rec[n][0]))
                        if rec[n][1] != draws(MersenneTwister(before[n])):
                            bad.append(("refused-update-changed-draws", key,
                                        n))
                if out == "ok":
                    for n in names:
                        if rec[n][1] != draws(MersenneTwister(rec[n][0])):
                            bad.append(("draws-not-those-of-seed", key, n))
            if any(p != per_order[0] for p in per_order):
                bad.append(("depends-on-listing-order",
                            "simple|%s|%r" % ("/".join(names), r)))
            # history independence (valid r only)
            if valid_r:
                for n_i, n in enumerate(names):
                    a = MersenneTwister(ORIG[n_i % len(ORIG)])
                    SimpleStreamUpdater().update_seed(n, a, r)
                    b = MersenneTwister(ORIG[n_i % len(ORIG)])
                    for _ in range(5):
                        b.next_float()
                    SimpleStreamUpdater().update_seed(n, b, r + 2)
                    b.next_int(0, 9)
                    SimpleStreamUpdater().update_seed(n, b, r)
                    c = MersenneTwister(ORIG[n_i % len(ORIG)])
                    SimpleStreamUpdater().update_seed(n, c, r)
                    c.next_float()
                    SimpleStreamUpdater().update_seed(n, c, r)   # same again
                    ra = (a.seed(), draws(a))
                    for lab, x in (("after-other-replication", b),
                                   ("same-replication-twice", c)):
                        rx = (x.seed(), draws(x))
                        if rx != ra:
                            bad.append(("depends-on-stream-history", lab, n,
                                        r, ra[0], rx[0]))
            # ---------------- StreamSeedUpdater
            for tname, table in tables_for(names):
                for fb in ("default", "replaced", "replaced-subclass"):
                    per_order = []
                    for order in orders:
                        st = fresh(names)
                        d = {n: st[n] for n in order}
                        upd = StreamSeedUpdater({k: list(v) for k, v
                                                 in table.items()})
                        recorder = None
                        if fb != "default":
                            recorder = Recording() if fb == "replaced" \
                                else Recording2()
                            upd.set_fallback_stream_updater(recorder)
                        rec = {}
                        # per stream, so one refusal does not hide the others
                        for n in order:
                            before = st[n].seed()
                            o = outcome(lambda: upd.update_seed(n, st[n], r))
                            rec[n] = (o, st[n].seed(), draws(st[n]))
                            key = "table|%s|%r|%s|%s|%s|%s" % (
                                "/".join(names), r, tname, fb,
                                "/".join(order), n)
                            listed = n in table
                            if not isinstance(r, int) or isinstance(r, bool):
                                want = "TypeError"
                            elif r < 0:
                                want = "ValueError"
                            elif listed and r >= len(table[n]):
                                want = "ValueError"
                            else:
                                want = "ok"
                            if o != want:
                                bad.append(("outcome-%s-expected-%s" % (o,
                                                                        want),
                                            key))
                            if want != "ok" or o != "ok":
                                if o != "ok" and (
                                        rec[n][1] != before or rec[n][2] !=
                                        draws(MersenneTwister(before))):
                                    bad.append(("refused-update-changed-"
                                                "stream", key, before,
                                                rec[n][1]))
                                continue
                            if listed:
                                if rec[n][1] != table[n][r]:
                                    bad.append(("listed-seed", key, rec[n][1],
                                                table[n][r]))
                            elif fb == "default":
                                ref = MersenneTwister(before)
                                SimpleStreamUpdater().update_seed(n, ref, r)
                                if rec[n][1] != ref.seed():
                                    bad.append(("fallback-seed", key,
                                                rec[n][1], ref.seed()))
                            else:
                                if (n, r) not in recorder.calls or \
                                        rec[n][1] != 777000 + r:
                                    bad.append(("replaced-fallback-not-used",
                                                key, rec[n][1]))
                            if rec[n][2] != draws(MersenneTwister(rec[n][1])):
                                bad.append(("draws-not-those-of-seed", key))
                        per_order.append(rec)
                        res["table|%s|%r|%s|%s|%s" % (
                            "/".join(names), r, tname, fb, "/".join(order))] \
                            = {n: [rec[n][0], rec[n][1]] for n in names}
                        # whole-dict call as well
                        st2 = fresh(names)
                        d2 = {n: st2[n] for n in order}
                        upd2 = StreamSeedUpdater({k: list(v) for k, v
                                                  in table.items()})
                        o2 = outcome(lambda: upd2.update_seeds(d2, r))
                        # the state after a (possibly partially refused)
                        # whole-dict update must not depend on the process
                        res["dict|%s|%r|%s|%s|%s" % (
                            "/".join(names), r, tname, fb, "/".join(order))] \
                            = [o2, {n: st2[n].seed() for n in names}]
                        allok = all(rec[n][0] == "ok" for n in names)
                        if allok and fb == "default":
                            if o2 != "ok" or any(st2[n].seed() != rec[n][1]
                                                 for n in names):
                                bad.append(("update_seeds-differs-from-"
                                            "update_seed", "/".join(names), r,
                                            tname, o2))
                        elif not allok and o2 == "ok":
                            bad.append(("update_seeds-accepted-invalid",
                                        "/".join(names), r, tname))
                        # a replication number that is refused for every
                        # stream (ill-typed or negative): the whole-dict call
                        # is refused and no stream is touched, not even
                        # rewound to the start of its sequence
                        if not valid_r and tname in ("none", "all"):
                            st3 = fresh(names)
                            tw3 = fresh(names)
                            for n in names:
                                draws(st3[n])
                                draws(tw3[n])
                            d3 = {n: st3[n] for n in order}
                            o3 = outcome(lambda: upd2.update_seeds(d3, r))
                            if o3 == "ok" or any(
                                    draws(st3[n]) != draws(tw3[n])
                                    or st3[n].seed() != tw3[n].seed()
                                    for n in names):
                                bad.append(("refused-update_seeds-touched-"
                                            "the-streams", "/".join(names), r,
                                            tname, o3))
                    if any(p != per_order[0] for p in per_order):
                        bad.append(("depends-on-listing-order",
                                    "table|%s|%r|%s|%s" % ("/".join(names), r,
                                                           tname, fb)))
    # ---------------- one stream object registered under two names, and a
    # refusal in the middle of a whole-dict update: the outcome may depend on
    # the listing order of the dict the caller built, but never on the process
    for names in NAME_SETS:
        if len(names) < 2:
            continue
        for r in (1, 3):
            shared = MersenneTwister(5)
            d = {n: (shared if i < 2 else MersenneTwister(ORIG[i % 4]))
                 for i, n in enumerate(names)}
            out = outcome(lambda: SimpleStreamUpdater().update_seeds(d, r))
            res["alias|%s|%r" % ("/".join(names), r)] = [
                out, shared.seed(), draws(shared)]
            # which name wins is not specified; only that it is the same in
            # every process (compared through `res`)
            if out != "ok":
                bad.append(("aliased-stream-update-refused",
                            "/".join(names), r, out))
    # ---------------- seed tables held by StreamSeedInformation objects: two
    # experiments in one process must not see each other's configuration
    from pydsol.core.streams import StreamSeedInformation
    for r in (0, 1, 3):
        a = StreamSeedInformation()
        a.add_stream("arrivals", MersenneTwister(3))
        a.add_seed_values("arrivals", [9001, 9002])
        a.add_seed_values("default", [8001, 8002, 8003, 8004])
        b = StreamSeedInformation()
        b.add_stream("arrivals", MersenneTwister(3))
        upd_b = StreamSeedUpdater(b.get_seeds())
        for nm in ("arrivals", "default"):
            s_b = b.get_stream(nm)
            want = MersenneTwister(s_b.original_seed())
            SimpleStreamUpdater().update_seed(nm, want, r)
            o = outcome(lambda: upd_b.update_seed(nm, s_b, r))
            res["info|%s|%r" % (nm, r)] = [o, s_b.seed()]
            if o != "ok" or s_b.seed() != want.seed():
                bad.append(("experiment-sees-another-experiments-seed-table",
                            nm, r, o, s_b.seed(), want.seed()))
        if b.get_seeds() != {}:
            bad.append(("fresh-StreamSeedInformation-has-seed-values",
                        sorted(b.get_seeds())))
        if StreamSeedInformation().get_stream("default") is \
                StreamSeedInformation().get_stream("default"):
            bad.append(("default-stream-object-shared-between-instances",))
        # the same for the plain StreamInformation: every instance made
        # without arguments has its own, equally seeded default stream
        from pydsol.core.streams import StreamInformation
        i1 = StreamInformation()
        d1 = draws(i1.get_stream("default"))
        i1.get_stream("default").set_seed(4711 + r)
        i2 = StreamInformation()
        if i2.get_stream("default") is i1.get_stream("default") or \
                draws(i2.get_stream("default")) != d1 or \
                i2.get_stream("default").seed() == 4711 + r:
            bad.append(("default-stream-of-StreamInformation-depends-on-"
                        "earlier-instances",))
    # ---------------- the same refusals when the arguments are given by name
    for upd in (SimpleStreamUpdater(), StreamSeedUpdater({"x": [5, 6]})):
        for r in (-1, -2, 2.5, "1", None):
            for nm in ("x", "y"):
                s = MersenneTwister(111)
                draws(s)
                tw = MersenneTwister(111)
                draws(tw)
                o = outcome(lambda: upd.update_seed(
                    stream_id=nm, stream=s, replication_nr=r))
                want = "ValueError" if isinstance(r, int) and \
                    not isinstance(r, bool) else "TypeError"
                if o != want or s.seed() != tw.seed() or \
                        draws(s) != draws(tw):
                    bad.append(("keyword-call-not-refused-like-positional",
                                type(upd).__name__, nm, repr(r), o,
                                s.seed()))
        # and a valid keyword call does what the positional one does
        for r in (0, 1):
            for nm in ("x", "y"):
                a = MersenneTwister(111)
                b = MersenneTwister(111)
                upd.update_seed(nm, a, r)
                o = outcome(lambda: upd.update_seed(
                    stream_id=nm, stream=b, replication_nr=r))
                if o != "ok" or a.seed() != b.seed() or draws(a) != draws(b):
                    bad.append(("keyword-call-differs-from-positional",
                                type(upd).__name__, nm, r, o))
    # ---------------- a seed list that names the same seed twice, and the
    # same replication prepared twice in a row: the stream starts afresh
    for table in ({"x": [11, 11, 12]}, {"x": [7]}):
        upd = StreamSeedUpdater(table)
        for r_seq in ((0, 1), (0, 0), (1, 1, 2)):
            if max(r_seq) >= len(table["x"]):
                continue
            s = MersenneTwister(table["x"][0])
            for r in r_seq:
                draws(s)
                upd.update_seed("x", s, r)
                fresh = MersenneTwister(table["x"][r])
                if s.seed() != table["x"][r] or draws(s) != draws(fresh):
                    bad.append(("listed-seed-does-not-restart-the-stream",
                                repr(table), list(r_seq), r, s.seed()))
                    break
    # ---------------- looking at the configuration does not change it
    for r in (0, 1):
        info = StreamSeedInformation()
        info.add_stream("arrivals", MersenneTwister(3))
        info.add_stream("service", MersenneTwister(4))
        info.add_seed_values("arrivals", [9001, 9002])
        upd_before = StreamSeedUpdater(info.get_seeds())
        table0 = {k: list(v) for k, v in info.get_seeds().items()}
        looks = []
        for nm in ("arrivals", "service", "default", "nobody"):
            looks.append(outcome(lambda: info.get_seed_values(nm)))
        outcome(lambda: info.get_seeds())
        outcome(lambda: info.get_streams())
        if {k: list(v) for k, v in info.get_seeds().items()} != table0:
            bad.append(("reading-the-seed-table-changed-it", looks,
                        sorted(info.get_seeds()), sorted(table0)))
        for upd in (upd_before, StreamSeedUpdater(info.get_seeds())):
            for nm in ("service", "default"):
                s = info.get_stream(nm)
                want = MersenneTwister(s.original_seed())
                SimpleStreamUpdater().update_seed(nm, want, r)
                o = outcome(lambda: upd.update_seed(nm, s, r))
                if o != "ok" or s.seed() != want.seed():
                    bad.append(("unlisted-stream-not-served-by-the-fallback-"
                                "after-a-query", nm, r, o, s.seed(),
                                want.seed()))
    # ---------------- one updater object serves streams of several owners:
    # the seed depends on the stream's own original seed, not on which stream
    # with that name the updater served before
    for r in (0, 1, 3):
        for upd in (SimpleStreamUpdater(), StreamSeedUpdater({})):
            for first, second in ((20, 31), (31, 20), (20, 20)):
                a = MersenneTwister(first)
                b = MersenneTwister(second)
                upd.update_seed("default", a, r)
                draws(a)
                upd.update_seed("default", b, r)
                want = MersenneTwister(second)
                SimpleStreamUpdater().update_seed("default", want, r)
                if b.seed() != want.seed() or draws(b) != draws(want):
                    bad.append(("seed-depends-on-streams-served-before",
                                type(upd).__name__, r, first, second,
                                b.seed(), want.seed()))
    # ---------------- seed lists replaced through add_seed_values: the table
    # is a function of the last list given per stream, not of the history
    LISTS = ([11, 12, 13, 14], [21, 22], [31], [], [41, 42, 43, 44, 45])
    for first in LISTS:
        for second in LISTS:
            for third in (None, [51, 52, 53]):
                info = StreamSeedInformation()
                info.add_stream("x", MersenneTwister(5))
                given = [list(first), list(second)] + (
                    [list(third)] if third is not None else [])
                o = "ok"
                for g in given:
                    o = outcome(lambda: info.add_seed_values("x", g))
                    if o != "ok":
                        break
                key = "replace|%r" % (given,)
                if o != "ok":
                    bad.append(("add_seed_values-refused", key, o))
                    continue
                last = given[-1]
                got = info.get_seeds().get("x")
                res[key] = got
                if got != last:
                    bad.append(("seed-table-depends-on-earlier-lists", key,
                                got, last))
                if given != [list(first), list(second)] + (
                        [list(third)] if third is not None else []):
                    bad.append(("add_seed_values-changed-a-callers-list", key,
                                given))
                upd = StreamSeedUpdater(info.get_seeds())
                for r in range(0, 6):
                    s = info.get_stream("x")
                    before = s.seed()
                    o = outcome(lambda: upd.update_seed("x", s, r))
                    want = "ok" if r < len(last) else "ValueError"
                    if o != want or (o == "ok" and s.seed() != last[r]) or \
                            (o != "ok" and s.seed() != before):
                        bad.append(("replaced-seed-list-served-wrongly", key,
                                    r, o, s.seed()))
    # ---------------- the seed table is edited after the updater was built
    for names in NAME_SETS:
        n0 = names[0]
        for r in (0, 1):
            table = {}
            upd = StreamSeedUpdater(table)
            s = MersenneTwister(10)
            table[n0] = [501, 502, 503]           # list added later
            o = outcome(lambda: upd.update_seed(n0, s, r))
            res["edit-add|%s|%r" % (n0, r)] = [o, s.seed()]
            if o != "ok" or s.seed() != table[n0][r]:
                bad.append(("seed-list-added-after-construction-ignored", n0,
                            r, o, s.seed()))
            table[n0] = [601]                     # list shortened later
            before = s.seed()
            o = outcome(lambda: upd.update_seed(n0, s, 1))
            if o != "ValueError" or s.seed() != before:
                bad.append(("replication-beyond-edited-list-not-refused", n0,
                            o, s.seed()))
            del table[n0]                         # list removed later
            ref = MersenneTwister(before)
            ref2 = MersenneTwister(10)
            o = outcome(lambda: upd.update_seed(n0, s, r))
            t = MersenneTwister(10)
            SimpleStreamUpdater().update_seed(n0, t, r)
            if o != "ok" or s.seed() != t.seed():
                bad.append(("seed-list-removed-after-construction-not-"
                            "served-by-fallback", n0, r, o, s.seed(),
                            t.seed()))
            res["edit-del|%s|%r" % (n0, r)] = [o, s.seed()]
    # ---------------- long experiments: ONE updater and ONE set of stream
    # objects through 0..47 replications (in order, backwards, scrambled);
    # every seed equals that of a brand-new stream updated by a brand-new
    # updater straight to that replication
    names = ["default", "service", "arr"]

    def mk_streams(names_):
        return {n_: MersenneTwister(ORIG[i_ % len(ORIG)])
                for i_, n_ in enumerate(names_)}
    for uname in ("simple", "table-fallback", "table-listed"):
        for oname, rs in (("ascending", list(range(48))),
                          ("descending", list(range(47, -1, -1))),
                          ("scrambled", [(i * 29) % 48 for i in range(48)]),
                          ("same-again", [5] * 20 + [6] * 20)):
            table = {"service": [9000 + k for k in range(48)]} \
                if uname == "table-listed" else {}
            upd = SimpleStreamUpdater() if uname == "simple" else \
                StreamSeedUpdater({k: list(v) for k, v in table.items()})
            st = mk_streams(names)
            for k, r in enumerate(rs):
                o = outcome(lambda: upd.update_seeds(st, r))
                f = mk_streams(names)
                u2 = SimpleStreamUpdater() if uname == "simple" else \
                    StreamSeedUpdater({k_: list(v) for k_, v
                                       in table.items()})
                u2.update_seeds(f, r)
                got = {n: (st[n].seed(), st[n].original_seed(),
                           draws(st[n])) for n in names}
                want = {n: (f[n].seed(), f[n].original_seed(), draws(f[n]))
                        for n in names}
                if o != "ok" or got != want:
                    bad.append(("long-experiment-%s" % uname, oname, k, r, o,
                                {n: got[n][:2] for n in names},
                                {n: want[n][:2] for n in names}))
                    break
            res["long|%s|%s" % (uname, oname)] = [
                {n: st[n].seed() for n in names}]
    # one updater object, the SAME stream object known under another name
    # later on (a model rebuilt with renamed streams)
    for r in (1, 2, 7):
        upd = SimpleStreamUpdater()
        s = MersenneTwister(10)
        upd.update_seeds({"service": s}, r)
        upd.update_seeds({"arrivals": s}, r)
        f = MersenneTwister(10)
        SimpleStreamUpdater().update_seeds({"arrivals": f}, r)
        if s.seed() != f.seed():
            bad.append(("seed-depends-on-an-earlier-name-of-the-stream", r,
                        s.seed(), f.seed()))
        upd2 = StreamSeedUpdater({})
        s = MersenneTwister(10)
        upd2.update_seeds({"service": s}, r)
        upd2.update_seeds({"arrivals": s}, r)
        if s.seed() != f.seed():
            bad.append(("seed-depends-on-an-earlier-name-of-the-stream:"
                        "table", r, s.seed(), f.seed()))
    return res, bad


def child_main():
    res, bad = evaluate_all()
    json.dump({"res": res, "bad": bad[:50], "nbad": len(bad)}, sys.stdout)


def run(ctx):
    from vlib import common
    import pydsol.core.streams as ST
    quick = ctx.tier == "quick"
    base, bad = evaluate_all()
    ctx.part("in-process table", configurations=len(base),
             oracle_violations=len(bad))
    for b in bad:
        ctx.violation("C13:%s" % b[0], "seed update: %s" % (b,),
                      {"mode": "inprocess"}, rank=len(str(b)))
    evals = len(base)
    # own hash(): replace the name `hash` seen by streams.py
    answers = [0, 1, -7, 2 ** 61 - 1]
    for ans in answers:
        ST.hash = (lambda a: (lambda s: a))(ans)
        try:
            r2, b2 = evaluate_all()
        finally:
            del ST.hash
        evals += len(r2)
        diff = [k for k in base if r2.get(k) != base[k]]
        if diff:
            ctx.violation("C13:depends-on-hash()",
                          "with hash() answering %d the result for %s is %s "
                          "instead of %s" % (ans, diff[0], r2.get(diff[0]),
                                             base[diff[0]]),
                          {"mode": "hash-answer", "answer": ans,
                           "first_key": diff[0]}, count=len(diff))
    ctx.part("hash() answers enumerated", answers=answers)
    # separate interpreter processes
    seeds = ["0", "1", "2", "random"] + ([str(1 + ctx.seed % 4000000000)]
                                         if ctx.seed else []) + \
        ([] if quick else ["3", "12345", "4294967295", "random"])
    env0 = dict(os.environ)
    procs = []
    for hs in seeds:
        env = dict(env0, PYTHONHASHSEED=hs)
        procs.append((hs, subprocess.Popen(
            [sys.executable, "-m", "checks.c13", "--child"], env=env,
            stdout=subprocess.PIPE, stderr=subprocess.PIPE, cwd=common.ROOT)))
    for hs, p in procs:
        out, err = p.communicate(timeout=600)
        if p.returncode != 0:
            raise common.HarnessError("child %s failed: %s" % (hs,
                                                               err[-400:]))
        d = json.loads(out)
        evals += len(d["res"])
        diff = [k for k in base if d["res"].get(k) != common.jsonable(base[k])]
        if diff:
            ctx.violation("C13:differs-between-processes",
                          "PYTHONHASHSEED=%s: %s gives %s, parent process %s"
                          % (hs, diff[0], d["res"].get(diff[0]),
                             base[diff[0]]),
                          {"mode": "process", "hashseed": hs,
                           "first_key": diff[0]}, count=len(diff))
        if d["nbad"]:
            b = d["bad"][0]
            ctx.violation("C13:child:%s" % b[0],
                          "in child PYTHONHASHSEED=%s: %s" % (hs, b),
                          {"mode": "process", "hashseed": hs},
                          count=d["nbad"])
    ctx.part("interpreter processes", hash_seeds=seeds)
    k = sorted(base)[len(base) // 2]
    ctx.sample({"configuration": k, "result": base[k]})
    k = sorted(base)[3]
    ctx.sample({"configuration": k, "result": base[k]})
    nontriv = sum(1 for k in base if "|0|" not in k)
    ctx.coverage.update(
        evaluations=evals, distinct_nontrivial=nontriv,
        rule="configurations = name sets %s x replication numbers %s x "
        "{SimpleStreamUpdater; StreamSeedUpdater with seed tables none/all/"
        "first/short-last x default/replaced fallback} x all listing orders "
        "of the stream dict x stream histories (fresh, after other "
        "replication, same replication twice); each evaluated in-process, "
        "with hash() answering each of %s, and in %d fresh interpreters with "
        "PYTHONHASHSEED in %s. distinct_nontrivial = configurations with "
        "replication number != 0 (where the name enters the seed)."
        % (NAME_SETS, REPS, answers, len(seeds), seeds))
    ctx.assumptions += [
        "hash seeds are a sampled dimension of a 2^32 space; the dependence "
        "is additionally closed by owning hash() in-process",
        "bool replication numbers are not explored (bool is an int)"]


def replay(data):
    res, bad = evaluate_all()
    if bad:
        return bad[:3]
    if data.get("mode") == "hash-answer":
        import pydsol.core.streams as ST
        ST.hash = lambda s: data["answer"]
        try:
            r2, _ = evaluate_all()
        finally:
            del ST.hash
        d = [k for k in res if r2.get(k) != res[k]]
        return d[:3] or None
    if data.get("mode") == "process":
        env = dict(os.environ, PYTHONHASHSEED=str(data["hashseed"]))
        from vlib import common
        out = subprocess.run([sys.executable, "-m", "checks.c13", "--child"],
                             env=env, capture_output=True, cwd=common.ROOT)
        d = json.loads(out.stdout)
        from vlib.common import jsonable
        diff = [k for k in res if d["res"].get(k) != jsonable(res[k])]
        return diff[:3] or (d["bad"][:3] or None)
    return None


if __name__ == "__main__":
    if "--child" in sys.argv:
        child_main()
