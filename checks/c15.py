"""C15 - samplers agree with their declared density / probability / cumulative
functions.

No random sample is drawn.  Deterministic, exhaustive over stated lattices:
 * density side: grid + adaptive quadrature of every declared density (>= 0,
   0 outside the support, evaluable at bounds and mode, integral 1, equal to an
   independent closed form); pmf >= 0, sums to 1, equal to a closed form;
 * sampler side: the sampler is run on the FULL midpoint lattice N^k of stream
   answers (k = uniforms consumed per accepted draw); the equal-weight set of
   returned values is the push-forward of the lattice measure and is compared
   with the closed-form cdf (Kolmogorov distance) / pmf;
 * cdf / inverse cdf / erf_inv: grid monotonicity, derivative vs density,
   round trips.
Runs under python3-vt (numpy / scipy as independent oracles).
"""
import itertools
import math

from vlib import common

LEVEL = "exploration"


def np_():
    import numpy
    return numpy


def make_stream():
    from pydsol.core.streams import StreamInterface

    class Lattice(StreamInterface):
        def __init__(self):
            self.script = ()
            self.i = 0

        def next_float(self):
            i = self.i
            self.i += 1
            if i < len(self.script):
                return self.script[i]
            if i > len(self.script) + 1000000:
                # a sampler that never returns must not hang the check
                raise RuntimeError("draw does not return")
            # beyond the lattice point (first attempt rejected): a benign
            # answer lets every loop terminate; the draw is discarded because
            # the consumption count exceeds k
            return 0.4375

        def next_bool(self):
            return self.next_float() < 0.5

        def next_int(self, lo, hi):
            return lo + math.floor((hi - lo + 1) * self.next_float())

        def seed(self):
            return 0

        def original_seed(self):
            return 0

        def set_seed(self, x):
            pass

        def reset(self):
            self.i = 0

        def save_state(self):
            return self.i

        def restore_state(self, st):
            self.i = st
    return Lattice


def continuous_cases():
    from scipy import stats
    from pydsol.core import distributions as D
    inf = math.inf
    # name, constructor, frozen closed form, k (uniforms per accepted draw),
    # N (lattice points per axis), support (lo, hi), special grid points
    C = [
        ("Exponential(2)", lambda s: D.DistExponential(s, 2.0),
         stats.expon(scale=2.0), 1, 1 << 14, (0, inf), []),
        ("Weibull(1.5,2)", lambda s: D.DistWeibull(s, 1.5, 2.0),
         stats.weibull_min(1.5, scale=2.0), 1, 1 << 14, (0, inf), []),
        ("Weibull(0.7,3)", lambda s: D.DistWeibull(s, 0.7, 3.0),
         stats.weibull_min(0.7, scale=3.0), 1, 1 << 14, (0, inf), []),
        # parameters exactly 1 (where families coincide with simpler ones)
        ("Weibull(1.0,2.5)", lambda s: D.DistWeibull(s, 1.0, 2.5),
         stats.weibull_min(1.0, scale=2.5), 1, 1 << 14, (0, inf), []),
        ("Weibull(1,0.25)", lambda s: D.DistWeibull(s, 1, 0.25),
         stats.weibull_min(1.0, scale=0.25), 1, 1 << 14, (0, inf), []),
        ("Weibull(2.0,1.0)", lambda s: D.DistWeibull(s, 2.0, 1.0),
         stats.weibull_min(2.0, scale=1.0), 1, 1 << 14, (0, inf), []),
        ("Exponential(1)", lambda s: D.DistExponential(s, 1.0),
         stats.expon(scale=1.0), 1, 1 << 14, (0, inf), []),
        ("Gamma(1,1)", lambda s: D.DistGamma(s, 1.0, 1.0),
         stats.gamma(1.0, scale=1.0), 1, 1 << 14, (0, inf), []),
        ("Gamma(2,1)", lambda s: D.DistGamma(s, 2.0, 1.0),
         stats.gamma(2.0, scale=1.0), 2, 256, (0, inf), []),
        ("Normal(0,1)", lambda s: D.DistNormal(s, 0.0, 1.0),
         stats.norm(0.0, 1.0), 2, 256, (-inf, inf), []),
        # parameters given by keyword
        ("LogNormal(mu=0.5,sigma=0.4)",
         lambda s: D.DistLogNormal(s, mu=0.5, sigma=0.4),
         stats.lognorm(0.4, scale=math.exp(0.5)), 2, 256, (0, inf), []),
        ("LogNormal(1.5,sigma=0.5)",
         lambda s: D.DistLogNormal(s, 1.5, sigma=0.5),
         stats.lognorm(0.5, scale=math.exp(1.5)), 2, 256, (0, inf), []),
        ("Normal(mu=1,sigma=2)", lambda s: D.DistNormal(s, mu=1.0, sigma=2.0),
         stats.norm(1.0, 2.0), 2, 256, (-inf, inf), []),
        ("Gamma(shape=2.5,scale=2)",
         lambda s: D.DistGamma(s, shape=2.5, scale=2.0),
         stats.gamma(2.5, scale=2.0), 2, 256, (0, inf), []),
        ("Weibull(alpha=1.5,beta=2)",
         lambda s: D.DistWeibull(s, alpha=1.5, beta=2.0),
         stats.weibull_min(1.5, scale=2.0), 1, 1 << 13, (0, inf), []),
        ("Exponential(mean=2)", lambda s: D.DistExponential(s, mean=2.0),
         stats.expon(scale=2.0), 1, 1 << 13, (0, inf), []),
        ("Erlang(scale=2,k=3)", lambda s: D.DistErlang(s, scale=2.0, k=3),
         stats.erlang(3, scale=2.0), 3, 48, (0, inf), []),
        ("Uniform(lo=1,hi=4)", lambda s: D.DistUniform(s, lo=1.0, hi=4.0),
         stats.uniform(1, 3), 1, 1 << 13, (1, 4), [1.0, 4.0]),
        ("Pearson5(alpha=2,beta=3)",
         lambda s: D.DistPearson5(s, alpha=2.0, beta=3.0),
         stats.invgamma(2.0, scale=3.0), 2, 256, (0, inf), []),
        # parameters given as Python ints (documented: float or int)
        ("Gamma(int 3,4.0)", lambda s: D.DistGamma(s, 3, 4.0),
         stats.gamma(3, scale=4.0), 2, 256, (0, inf), []),
        ("Gamma(int 4,int 2)", lambda s: D.DistGamma(s, 4, 2),
         stats.gamma(4, scale=2.0), 2, 256, (0, inf), []),
        ("Gamma(int 1,int 2)", lambda s: D.DistGamma(s, 1, 2),
         stats.gamma(1, scale=2.0), 1, 1 << 13, (0, inf), []),
        ("Weibull(int 2,int 3)", lambda s: D.DistWeibull(s, 2, 3),
         stats.weibull_min(2, scale=3), 1, 1 << 13, (0, inf), []),
        ("Exponential(int 2)", lambda s: D.DistExponential(s, 2),
         stats.expon(scale=2.0), 1, 1 << 13, (0, inf), []),
        ("Normal(int 1,int 2)", lambda s: D.DistNormal(s, 1, 2),
         stats.norm(1.0, 2.0), 2, 256, (-inf, inf), []),
        ("Beta(int 2,int 3)", lambda s: D.DistBeta(s, 2, 3),
         stats.beta(2, 3), 4, 22, (0, 1), [0.0, 1.0]),
        ("Pearson5(int 2,int 3)", lambda s: D.DistPearson5(s, 2, 3),
         stats.invgamma(2.0, scale=3.0), 2, 256, (0, inf), []),
        ("Triangular(int 1,2,4)", lambda s: D.DistTriangular(s, 1, 2, 4),
         stats.triang(c=1 / 3, loc=1, scale=3), 1, 1 << 13, (1, 4),
         [1.0, 2.0, 4.0]),
        ("Uniform(int 1,int 4)", lambda s: D.DistUniform(s, 1, 4),
         stats.uniform(1, 3), 1, 1 << 13, (1, 4), [1.0, 4.0]),
        ("Uniform(1,4)", lambda s: D.DistUniform(s, 1.0, 4.0),
         stats.uniform(1, 3), 1, 1 << 14, (1, 4), [1.0, 4.0]),
        ("Triangular(1,2,4)", lambda s: D.DistTriangular(s, 1.0, 2.0, 4.0),
         stats.triang(c=1 / 3, loc=1, scale=3), 1, 1 << 14, (1, 4),
         [1.0, 2.0, 4.0]),
        ("Triangular(1,1,4)", lambda s: D.DistTriangular(s, 1.0, 1.0, 4.0),
         stats.triang(c=0, loc=1, scale=3), 1, 1 << 14, (1, 4), [1.0, 4.0]),
        ("Triangular(1,4,4)", lambda s: D.DistTriangular(s, 1.0, 4.0, 4.0),
         stats.triang(c=1, loc=1, scale=3), 1, 1 << 14, (1, 4), [1.0, 4.0]),
        ("NormalTrunc(0,1,-1,2)",
         lambda s: D.DistNormalTrunc(s, 0.0, 1.0, -1.0, 2.0),
         stats.truncnorm(-1, 2), 1, 1 << 13, (-1, 2), [-1.0, 2.0]),
        ("NormalTrunc(0,1,lo=0.5)",
         lambda s: D.DistNormalTrunc(s, 0.0, 1.0, lo=0.5),
         stats.truncnorm(0.5, inf), 1, 1 << 13, (0.5, inf), [0.5]),
        ("NormalTrunc(1,2,hi=0)",
         lambda s: D.DistNormalTrunc(s, 1.0, 2.0, hi=0.0),
         stats.truncnorm(-inf, -0.5, loc=1, scale=2), 1, 1 << 13, (-inf, 0),
         [0.0]),
        ("Gamma(1,2)", lambda s: D.DistGamma(s, 1.0, 2.0),
         stats.gamma(1.0, scale=2.0), 1, 1 << 14, (0, inf), []),
        ("Erlang(2,1)", lambda s: D.DistErlang(s, 2.0, 1),
         stats.erlang(1, scale=2.0), 1, 1 << 14, (0, inf), []),
        ("Gamma(0.5,2)", lambda s: D.DistGamma(s, 0.5, 2.0),
         stats.gamma(0.5, scale=2.0), 2, 256, (0, inf), []),
        ("Gamma(2.5,2)", lambda s: D.DistGamma(s, 2.5, 2.0),
         stats.gamma(2.5, scale=2.0), 2, 256, (0, inf), []),
        ("Gamma(6,0.5)", lambda s: D.DistGamma(s, 6.0, 0.5),
         stats.gamma(6.0, scale=0.5), 2, 256, (0, inf), []),
        ("Erlang(2,2)", lambda s: D.DistErlang(s, 2.0, 2),
         stats.erlang(2, scale=2.0), 2, 256, (0, inf), []),
        ("Erlang(2,3)", lambda s: D.DistErlang(s, 2.0, 3),
         stats.erlang(3, scale=2.0), 3, 48, (0, inf), []),
        ("Erlang(0.5,12)", lambda s: D.DistErlang(s, 0.5, 12),
         stats.erlang(12, scale=0.5), 2, 256, (0, inf), []),
        ("Normal(1,2)", lambda s: D.DistNormal(s, 1.0, 2.0),
         stats.norm(1.0, 2.0), 2, 256, (-inf, inf), []),
        ("LogNormal(0,1)", lambda s: D.DistLogNormal(s, 0.0, 1.0),
         stats.lognorm(1.0), 2, 256, (0, inf), []),
        ("LogNormal(0.5,0.4)", lambda s: D.DistLogNormal(s, 0.5, 0.4),
         stats.lognorm(0.4, scale=math.exp(0.5)), 2, 256, (0, inf), []),
        ("Beta(1,1)", lambda s: D.DistBeta(s, 1.0, 1.0), stats.beta(1, 1), 2,
         256, (0, 1), [0.0, 1.0]),
        ("Beta(1,2)", lambda s: D.DistBeta(s, 1.0, 2.0), stats.beta(1, 2), 3,
         48, (0, 1), [0.0, 1.0]),
        ("Beta(3,1)", lambda s: D.DistBeta(s, 3.0, 1.0), stats.beta(3, 1), 3,
         48, (0, 1), [0.0, 1.0]),
        ("Beta(2,3)", lambda s: D.DistBeta(s, 2.0, 3.0), stats.beta(2, 3), 4,
         22, (0, 1), [0.0, 1.0]),
        ("Beta(0.5,0.5)", lambda s: D.DistBeta(s, 0.5, 0.5),
         stats.beta(0.5, 0.5), 4, 22, (0, 1), []),
        ("Pearson5(1,3)", lambda s: D.DistPearson5(s, 1.0, 3.0),
         stats.invgamma(1.0, scale=3.0), 1, 1 << 13, (0, inf), []),
        ("Pearson5(2,3)", lambda s: D.DistPearson5(s, 2.0, 3.0),
         stats.invgamma(2.0, scale=3.0), 2, 256, (0, inf), []),
        ("Pearson6(1,1,2)", lambda s: D.DistPearson6(s, 1.0, 1.0, 2.0),
         stats.betaprime(1.0, 1.0, scale=2.0), 2, 256, (0, inf), []),
        ("Pearson6(2,3,1.5)", lambda s: D.DistPearson6(s, 2.0, 3.0, 1.5),
         stats.betaprime(2.0, 3.0, scale=1.5), 4, 22, (0, inf), []),
    ]
    return C


def ks_threshold(k, N):
    """discretisation bound of the midpoint lattice.  Measured on the pinned
    tree: <= 0.5/N for k=1, <= 0.72/N (k=2, N=256), 0.31/N (k=3, N=48),
    0.54/N (k=4, N=22); the computation is deterministic, so 2/N leaves a
    factor >= 2.8 and is far below what a wrong formula produces"""
    return 2.0 / N


def density_worker(name):
    np = np_()
    from scipy import integrate
    Lattice = make_stream()
    case = [c for c in continuous_cases() if c[0] == name][0]
    _, mk, ref, k, N, (lo, hi), special = case
    d = mk(Lattice())
    bad = []
    n = 0
    # grid well beyond the support
    q = ref.ppf(np.linspace(1e-6, 1 - 1e-6, 801))
    span = float(q[-1] - q[0])
    grid = list(q) + special + [float(q[0]) - 0.37 * span - 1.0,
                                float(q[-1]) + 0.41 * span + 1.0]
    if math.isfinite(lo):
        grid += [lo, lo - 1e-9, lo - 1.0, lo - 0.5 * span]
    if math.isfinite(hi):
        grid += [hi, hi + 1e-9, hi + 1.0, hi + 0.5 * span]
    worst_rel = 0.0
    for x in grid:
        x = float(x)
        n += 1
        try:
            p = d.probability_density(x)
        except Exception as ex:  # noqa
            bad.append(("density-raises", name, x, type(ex).__name__))
            continue
        if not (isinstance(p, (int, float)) and p >= 0) or math.isnan(p):
            bad.append(("density-negative-or-nan", name, x, p))
            continue
        if x < lo or x > hi:
            if p != 0:
                bad.append(("density-nonzero-outside-support", name, x, p))
            continue
        rp = float(ref.pdf(x))
        if lo < x < hi and math.isfinite(rp) and rp > 1e-300:
            rel = abs(p - rp) / rp
            worst_rel = max(worst_rel, rel)
            if rel > 1e-7:
                bad.append(("density-differs-from-closed-form", name, x, p,
                            rp))
    pts = [float(x) for x in special if lo < x < hi]
    try:
        a = lo if math.isfinite(lo) else -np.inf
        b = hi if math.isfinite(hi) else np.inf
        I, err = integrate.quad(d.probability_density, a, b, limit=500,
                                points=pts if (pts and math.isfinite(lo)
                                               and math.isfinite(hi))
                                else None)
        n += 1
        if abs(I - 1.0) > 1e-6:
            bad.append(("density-integral", name, I))
    except Exception as ex:  # noqa
        bad.append(("density-quadrature-raised", name, type(ex).__name__))
        I = None
    return dict(name=name, n=n, bad=bad[:20], integral=I, worst_rel=worst_rel)


# thorough: finer lattices per number of uniforms k (threshold 2/N follows)
FINER = {1: 4, 2: 3, 3: 2, 4: 2}


def sampler_worker(task):
    np = np_()
    Lattice = make_stream()
    name, finer = task if isinstance(task, tuple) else (task, False)
    case = [c for c in continuous_cases() if c[0] == name][0]
    _, mk, ref, k, N, (lo, hi), special = case
    if finer:
        N = N * FINER[k]
    st = Lattice()
    d = mk(st)
    vals = []
    total = 0
    raised = 0
    axis = [(i + 0.5) / N for i in range(N)]
    second = []
    for pt in itertools.product(axis, repeat=k):
        total += 1
        if name.startswith(("Normal(", "LogNormal(")):
            d = mk(st)          # drop the saved second value
        st.script = pt
        st.i = 0
        try:
            x = d.draw()
        except Exception:  # noqa   (C14 covers raising draws)
            raised += 1
            if raised > 50 and raised > 0.5 * total:
                break           # a sampler that (almost) never returns
            continue
        if st.i != k or x != x:
            continue                      # first attempt rejected: discard
        vals.append(x)
        if name.startswith(("Normal(", "LogNormal(")):
            st.i = 0
            st.script = ()
            y = d.draw()                  # the saved second variate
            if st.i == 0 and y == y:
                second.append(y)
    out = dict(name=name, k=k, N=N, lattice=total, accepted=len(vals),
               raised=raised, bad=[])
    if raised > 50 and raised > 0.5 * total:
        out["bad"].append(("sampler-raises-or-does-not-return", name, raised,
                           total))
        return out
    if len(vals) < 0.05 * total:
        out["bad"].append(("sampler-accepts-almost-nothing", name, len(vals),
                           total))
        return out

    def ks(v):
        v = np.sort(np.asarray(v, dtype=float))
        F = ref.cdf(v)
        n = len(v)
        return float(max(np.max(np.abs(F - np.arange(1, n + 1) / n)),
                         np.max(np.abs(F - np.arange(0, n) / n))))
    D = ks(vals)
    out["ks"] = D
    thr = ks_threshold(k, N)
    out["threshold"] = thr
    if not D <= thr:
        out["bad"].append(("sampler-disagrees-with-density", name,
                           "KS distance %.4g > %.4g on the %d^%d lattice" % (
                               D, thr, N, k)))
    if second:
        D2 = ks(second)
        out["ks_second"] = D2
        if not D2 <= thr:
            out["bad"].append(("saved-second-variate-disagrees", name,
                               "KS %.4g > %.4g" % (D2, thr)))
    v = np.asarray(vals)
    if np.any(v < lo) or np.any(v > hi):
        out["bad"].append(("draw-outside-support", name, float(v.min()),
                           float(v.max())))
    return out


def discrete_cases():
    from scipy import stats
    from pydsol.core import distributions as D
    return [
        ("Bernoulli(0.25)", lambda s: D.DistBernoulli(s, 0.25),
         stats.bernoulli(0.25), 1, 64, range(-1, 4), 0.0),
        ("Binomial(3,0.25)", lambda s: D.DistBinomial(s, 3, 0.25),
         stats.binom(3, 0.25), 3, 16, range(-1, 6), 0.0),
        ("Binomial(2,0.5)", lambda s: D.DistBinomial(s, 2, 0.5),
         stats.binom(2, 0.5), 2, 64, range(-1, 5), 0.0),
        ("Binomial(4,0.125)", lambda s: D.DistBinomial(s, 4, 0.125),
         stats.binom(4, 0.125), 4, 16, range(-1, 7), 0.0),
        ("DiscreteUniform(-2,3)", lambda s: D.DistDiscreteUniform(s, -2, 3),
         stats.randint(-2, 4), 1, 6 * 64, range(-4, 6), 0.0),
        ("DiscreteUniform(-3,3)", lambda s: D.DistDiscreteUniform(s, -3, 3),
         stats.randint(-3, 4), 1, 7 * 64, range(-5, 6), 0.0),
        ("DiscreteUniform(-6,-1)", lambda s: D.DistDiscreteUniform(s, -6, -1),
         stats.randint(-6, 0), 1, 6 * 64, range(-8, 2), 0.0),
        ("DiscreteUniform(5,6)", lambda s: D.DistDiscreteUniform(s, 5, 6),
         stats.randint(5, 7), 1, 128, range(3, 9), 0.0),
        ("Geometric(0.25)", lambda s: D.DistGeometric(s, 0.25),
         stats.geom(0.25, loc=-1), 1, 1 << 14, range(-1, 60), 4.0),
        ("NegBinomial(2,0.25)", lambda s: D.DistNegBinomial(s, 2, 0.25),
         stats.nbinom(2, 0.25), 2, 256, range(-1, 80), 4.0),
        ("NegBinomial(3,0.5)", lambda s: D.DistNegBinomial(s, 3, 0.5),
         stats.nbinom(3, 0.5), 3, 48, range(-1, 40), 6.0),
    ]


def real_stream_scripted():
    """a real MersenneTwister whose wrapped generator is scripted, so that the
    library's own next_int is exercised; None if the wrapping attribute is
    not there"""
    from pydsol.core.streams import MersenneTwister
    mt = MersenneTwister(1)
    if not hasattr(mt, "_random"):
        return None

    import random as _random

    class Gen(_random.Random):
        def __init__(self):
            super().__init__(12345)
            self.script = ()
            self.i = 0

        def random(self):
            i = self.i
            self.i += 1
            return self.script[i] if i < len(self.script) else 0.4375
    g = Gen()
    mt._random = g

    class Proxy:
        """same surface as the lattice stream: .script / .i"""

        def __init__(self):
            self.mt = mt

        @property
        def i(self):
            return g.i

        @i.setter
        def i(self, v):
            g.i = v

        @property
        def script(self):
            return g.script

        @script.setter
        def script(self, v):
            g.script = v
    return Proxy()


def discrete_worker(name):
    Lattice = make_stream()
    case = [c for c in discrete_cases() if c[0] == name][0]
    _, mk, ref, k, N, support, tolfac = case
    st = Lattice()
    d = mk(st)
    if name.startswith("DiscreteUniform"):
        pr = real_stream_scripted()
        if pr is not None:
            st = pr
            d = mk(pr.mt)
    bad = []
    n = 0
    # pmf side
    tot = 0.0
    for x in support:
        n += 1
        try:
            p = d.probability(x)
        except Exception as ex:  # noqa
            bad.append(("probability-raises", name, x, type(ex).__name__))
            continue
        if not (p >= 0):
            bad.append(("probability-negative", name, x, p))
        rp = float(ref.pmf(x))
        if abs(p - rp) > 1e-12 + 1e-9 * rp:
            bad.append(("probability-differs-from-closed-form", name, x, p,
                        rp))
        tot += p
    if abs(tot - 1.0) > 1e-6:
        bad.append(("probabilities-do-not-sum-to-one", name, tot))
    for x in (0.5, "a", None):
        try:
            p = d.probability(x)
            if p != 0:
                bad.append(("probability-of-non-integer", name, repr(x), p))
        except Exception:  # noqa
            pass
    # the answer for an observation does not depend on what was asked before
    # (the same number as an int or as a float, in either order)
    qa, qb = mk(Lattice()), mk(Lattice())
    fl = [float(x) for x in support]

    def ask(q, xs):
        out = []
        for x in xs:
            try:
                out.append(q.probability(x))
            except Exception as ex:  # noqa
                out.append("raised " + type(ex).__name__)
        return out
    a_f, a_i = ask(qa, fl), ask(qa, list(support))
    b_i, b_f = ask(qb, list(support)), ask(qb, fl)
    n += 4 * len(fl)
    if a_i != b_i or a_f != b_f:
        bad.append(("probability-depends-on-earlier-queries", name,
                    "ints after floats %s, ints first %s; floats first %s, "
                    "floats after ints %s" % (a_i[:6], b_i[:6], a_f[:6],
                                              b_f[:6])))
    # sampler side: exact lattice mass
    cnt = {}
    acc = 0
    axis = [(i + 0.5) / N for i in range(N)]
    for pt in itertools.product(axis, repeat=k):
        st.script = pt
        st.i = 0
        try:
            x = d.draw()
        except Exception:  # noqa
            continue
        if st.i != k:
            continue
        acc += 1
        cnt[x] = cnt.get(x, 0) + 1
    tol = (tolfac / N) if tolfac else 1e-12
    worst = 0.0
    for x in set(list(support) + list(cnt)):
        m = cnt.get(x, 0) / acc if acc else 0.0
        try:
            p = d.probability(x)
        except Exception:  # noqa
            p = float("nan")
        worst = max(worst, abs(m - p))
        if not abs(m - p) <= tol:
            bad.append(("sampler-frequency-differs-from-probability", name, x,
                        "lattice mass %.6g, probability() %.6g" % (m, p)))
    return dict(name=name, n=n, lattice=N ** k, accepted=acc, worst=worst,
                bad=bad[:20])


def large_parameter_pmf():
    """pmf side for large parameters (the sampler needs too many uniforms per
    draw for a lattice): evaluable, >= 0, equal to the closed form, mass 1
    over a window of +-12 standard deviations"""
    from scipy import stats
    from pydsol.core import distributions as D
    Lattice = make_stream()
    cases = [
        ("Poisson(50)", D.DistPoisson(Lattice(), 50.0), stats.poisson(50)),
        ("Poisson(800)", D.DistPoisson(Lattice(), 800.0),
         stats.poisson(800)),
        ("Binomial(2000,0.5)", D.DistBinomial(Lattice(), 2000, 0.5),
         stats.binom(2000, 0.5)),
        ("Binomial(100,0.01)", D.DistBinomial(Lattice(), 100, 0.01),
         stats.binom(100, 0.01)),
        ("NegBinomial(500,0.5)", D.DistNegBinomial(Lattice(), 500, 0.5),
         stats.nbinom(500, 0.5)),
        ("Geometric(1e-6)", D.DistGeometric(Lattice(), 1e-6),
         stats.geom(1e-6, loc=-1)),
        ("DiscreteUniform(-2^40,2^40)",
         D.DistDiscreteUniform(Lattice(), -2 ** 40, 2 ** 40),
         stats.randint(-2 ** 40, 2 ** 40 + 1)),
    ]
    # parameters at the closed end of their documented range: the whole mass
    # sits on one value
    for nm, mk, ref in [
            ("Geometric(1.0)", lambda: D.DistGeometric(Lattice(), 1.0),
             stats.geom(1.0, loc=-1)),
            ("NegBinomial(3,1.0)", lambda: D.DistNegBinomial(Lattice(), 3, 1.0),
             stats.nbinom(3, 1.0)),
            ("NegBinomial(40,1.0)",
             lambda: D.DistNegBinomial(Lattice(), 40, 1.0),
             stats.nbinom(40, 1.0)),
            ("Binomial(5,0.0)", lambda: D.DistBinomial(Lattice(), 5, 0.0),
             stats.binom(5, 0.0)),
            ("Binomial(5,1.0)", lambda: D.DistBinomial(Lattice(), 5, 1.0),
             stats.binom(5, 1.0)),
            ("Binomial(40,1.0)", lambda: D.DistBinomial(Lattice(), 40, 1.0),
             stats.binom(40, 1.0)),
            ("Bernoulli(0.0)", lambda: D.DistBernoulli(Lattice(), 0.0),
             stats.bernoulli(0.0)),
            ("Bernoulli(1.0)", lambda: D.DistBernoulli(Lattice(), 1.0),
             stats.bernoulli(1.0)),
            ("DiscreteUniform(4,4)",
             lambda: D.DistDiscreteUniform(Lattice(), 4, 4),
             stats.randint(4, 5))]:
        try:
            cases.append((nm, mk(), ref))
        except Exception:  # noqa  (which parameters are accepted is C14's)
            pass
    n = 0
    bad = []
    for name, d, ref in cases:
        m, sd = float(ref.mean()), float(ref.std())
        lo = max(int(m - 12 * sd) - 1, int(ref.support()[0]) - 2)
        hi = int(m + 12 * sd) + 2
        step = max(1, (hi - lo) // 4000)
        tot = 0.0
        raised = 0
        window = list(range(lo, hi, step))
        extra = [x for x in (0, 1, int(m), int(m) * 4 + 7)
                 if x not in set(window)]
        for x in window + extra:
            n += 1
            try:
                p = d.probability(x)
            except Exception as ex:  # noqa
                raised += 1
                if raised == 1:
                    bad.append(("probability-raises", name, x,
                                type(ex).__name__))
                continue
            rp = float(ref.pmf(x))
            if not p >= 0:
                bad.append(("probability-negative", name, x, p))
            elif abs(p - rp) > 1e-9 * rp + 1e-300:
                bad.append(("probability-differs-from-closed-form", name, x,
                            p, rp))
            if lo <= x < hi and x not in extra:
                tot += p * step
        if step == 1 and not raised and abs(tot - 1.0) > 1e-6 and \
                name != "Geometric(1e-6)":
            bad.append(("probabilities-do-not-sum-to-one", name, tot))
    return n, bad[:40]


def sibling_cases():
    """instances of one class that share one parameter and differ in the
    other(s): evaluated one after the other in one process"""
    from scipy import stats
    from pydsol.core import distributions as D
    e = math.exp
    return [
        ("Erlang", "c", [
            (lambda s: D.DistErlang(s, 0.5, 25), stats.erlang(25, scale=0.5)),
            (lambda s: D.DistErlang(s, 2.5, 25), stats.erlang(25, scale=2.5)),
            (lambda s: D.DistErlang(s, 2.5, 30), stats.erlang(30, scale=2.5)),
            (lambda s: D.DistErlang(s, 0.5, 3), stats.erlang(3, scale=0.5)),
            (lambda s: D.DistErlang(s, 2.5, 3), stats.erlang(3, scale=2.5))]),
        ("Gamma", "c", [
            (lambda s: D.DistGamma(s, 2.5, 2.0), stats.gamma(2.5, scale=2.0)),
            (lambda s: D.DistGamma(s, 2.5, 0.5), stats.gamma(2.5, scale=0.5)),
            (lambda s: D.DistGamma(s, 0.5, 0.5), stats.gamma(0.5, scale=0.5)),
            (lambda s: D.DistGamma(s, 30.0, 0.5),
             stats.gamma(30.0, scale=0.5))]),
        ("Weibull", "c", [
            (lambda s: D.DistWeibull(s, 1.5, 2.0),
             stats.weibull_min(1.5, scale=2.0)),
            (lambda s: D.DistWeibull(s, 1.5, 3.0),
             stats.weibull_min(1.5, scale=3.0)),
            (lambda s: D.DistWeibull(s, 0.7, 3.0),
             stats.weibull_min(0.7, scale=3.0))]),
        ("Beta", "c", [
            (lambda s: D.DistBeta(s, 2.0, 3.0), stats.beta(2, 3)),
            (lambda s: D.DistBeta(s, 2.0, 5.0), stats.beta(2, 5)),
            (lambda s: D.DistBeta(s, 4.0, 5.0), stats.beta(4, 5))]),
        ("Normal", "c", [
            (lambda s: D.DistNormal(s, 1.0, 2.0), stats.norm(1.0, 2.0)),
            (lambda s: D.DistNormal(s, 1.0, 0.5), stats.norm(1.0, 0.5)),
            (lambda s: D.DistNormal(s, -3.0, 0.5), stats.norm(-3.0, 0.5))]),
        ("LogNormal", "c", [
            (lambda s: D.DistLogNormal(s, 0.5, 0.4),
             stats.lognorm(0.4, scale=e(0.5))),
            (lambda s: D.DistLogNormal(s, 0.5, 1.0),
             stats.lognorm(1.0, scale=e(0.5))),
            (lambda s: D.DistLogNormal(s, 0.0, 1.0), stats.lognorm(1.0))]),
        ("NormalTrunc", "c", [
            (lambda s: D.DistNormalTrunc(s, 0.0, 1.0, -1.0, 2.0),
             stats.truncnorm(-1, 2)),
            (lambda s: D.DistNormalTrunc(s, 0.0, 1.0, -1.0, 1.0),
             stats.truncnorm(-1, 1)),
            (lambda s: D.DistNormalTrunc(s, 0.0, 2.0, -1.0, 1.0),
             stats.truncnorm(-0.5, 0.5, scale=2.0))]),
        ("Pearson5", "c", [
            (lambda s: D.DistPearson5(s, 2.0, 3.0),
             stats.invgamma(2.0, scale=3.0)),
            (lambda s: D.DistPearson5(s, 2.0, 1.0),
             stats.invgamma(2.0, scale=1.0)),
            (lambda s: D.DistPearson5(s, 4.0, 1.0),
             stats.invgamma(4.0, scale=1.0))]),
        ("Pearson6", "c", [
            (lambda s: D.DistPearson6(s, 2.0, 3.0, 1.5),
             stats.betaprime(2.0, 3.0, scale=1.5)),
            (lambda s: D.DistPearson6(s, 2.0, 3.0, 0.5),
             stats.betaprime(2.0, 3.0, scale=0.5)),
            (lambda s: D.DistPearson6(s, 2.0, 4.0, 0.5),
             stats.betaprime(2.0, 4.0, scale=0.5))]),
        ("Triangular", "c", [
            (lambda s: D.DistTriangular(s, 1.0, 2.0, 4.0),
             stats.triang(c=1 / 3, loc=1, scale=3)),
            (lambda s: D.DistTriangular(s, 1.0, 3.0, 4.0),
             stats.triang(c=2 / 3, loc=1, scale=3)),
            (lambda s: D.DistTriangular(s, 1.0, 3.0, 7.0),
             stats.triang(c=1 / 3, loc=1, scale=6))]),
        ("Exponential", "c", [
            (lambda s: D.DistExponential(s, 2.0), stats.expon(scale=2.0)),
            (lambda s: D.DistExponential(s, 0.25), stats.expon(scale=0.25))]),
        ("Uniform", "c", [
            (lambda s: D.DistUniform(s, 1.0, 4.0), stats.uniform(1, 3)),
            (lambda s: D.DistUniform(s, 1.0, 2.0), stats.uniform(1, 1))]),
        ("Binomial", "d", [
            (lambda s: D.DistBinomial(s, 30, 0.25), stats.binom(30, 0.25)),
            (lambda s: D.DistBinomial(s, 30, 0.5), stats.binom(30, 0.5)),
            (lambda s: D.DistBinomial(s, 12, 0.5), stats.binom(12, 0.5))]),
        ("NegBinomial", "d", [
            (lambda s: D.DistNegBinomial(s, 25, 0.25), stats.nbinom(25, 0.25)),
            (lambda s: D.DistNegBinomial(s, 25, 0.5), stats.nbinom(25, 0.5)),
            (lambda s: D.DistNegBinomial(s, 3, 0.5), stats.nbinom(3, 0.5))]),
        ("Poisson", "d", [
            (lambda s: D.DistPoisson(s, 30.0), stats.poisson(30.0)),
            (lambda s: D.DistPoisson(s, 2.5), stats.poisson(2.5))]),
        ("Geometric", "d", [
            (lambda s: D.DistGeometric(s, 0.25), stats.geom(0.25, loc=-1)),
            (lambda s: D.DistGeometric(s, 0.5), stats.geom(0.5, loc=-1))]),
        ("DiscreteUniform", "d", [
            (lambda s: D.DistDiscreteUniform(s, -2, 3), stats.randint(-2, 4)),
            (lambda s: D.DistDiscreteUniform(s, -2, 9), stats.randint(-2, 10)),
            (lambda s: D.DistDiscreteUniform(s, 5, 9), stats.randint(5, 10))]),
        ("Bernoulli", "d", [
            (lambda s: D.DistBernoulli(s, 0.25), stats.bernoulli(0.25)),
            (lambda s: D.DistBernoulli(s, 0.75), stats.bernoulli(0.75))]),
    ]


def sibling_worker(task):
    """one family, one evaluation order: every instance's density / pmf on
    its own quantile grid against the closed form while the other instances
    of the class exist and have been evaluated before it; afterwards every
    instance is evaluated again and has to return the identical numbers"""
    np = np_()
    fam, order = task
    Lattice = make_stream()
    _, kind, members = [f for f in sibling_cases() if f[0] == fam][0]
    idx = list(range(len(members)))
    if order == "reverse":
        idx.reverse()
    elif order == "rotate":
        idx = idx[1:] + idx[:1]
    bad, n = [], 0
    inst, vals = {}, {}
    for i in idx:
        mk, ref = members[i]
        d = inst[i] = mk(Lattice())
        if kind == "c":
            grid = [float(x) for x in ref.ppf(np.linspace(0.01, 0.99, 41))]
            f, rf = d.probability_density, ref.pdf
        else:
            lo, hi = int(ref.ppf(0.001)), int(ref.ppf(0.999))
            grid = list(range(lo, hi + 1))[:60]
            f, rf = d.probability, ref.pmf
        out = []
        for x in grid:
            n += 1
            try:
                p = f(x)
            except Exception as ex:  # noqa
                bad.append(("sibling-evaluation-raises", fam, i, order, x,
                            type(ex).__name__))
                break
            out.append(p)
            rp = float(rf(x))
            if rp > 1e-300 and abs(p - rp) > 1e-7 * rp:
                bad.append(("sibling-instance-differs-from-closed-form", fam,
                            i, order, x, p, rp))
                break
        vals[i] = (grid, out, f)
    for i in idx:
        grid, out, f = vals[i]
        n += len(out)
        again = [f(x) for x in grid[:len(out)]]
        if again != out:
            bad.append(("sibling-instance-changed-by-later-instances", fam, i,
                        order))
    return dict(n=n, bad=bad[:6])


def poisson_check():
    """Poisson consumes x+1 uniforms for the value x: P(X=j) is the fraction
    of the (j+1)-dimensional lattice that consumes exactly j+1 uniforms"""
    from scipy import stats
    from pydsol.core import distributions as D
    Lattice = make_stream()
    bad = []
    n = 0
    for rate, dims in ((2.0, ((1, 4096), (2, 256), (3, 64))),
                       (0.3, ((1, 4096), (2, 256)))):
        st = Lattice()
        d = D.DistPoisson(st, rate)
        ref = stats.poisson(rate)
        tot = 0.0
        for x in range(-1, 60):
            p = d.probability(x)
            n += 1
            if not p >= 0 or abs(p - float(ref.pmf(x))) > 1e-12 + \
                    1e-9 * float(ref.pmf(x)):
                bad.append(("probability-differs-from-closed-form",
                            "Poisson(%s)" % rate, x, p, float(ref.pmf(x))))
            tot += p
        if abs(tot - 1) > 1e-6:
            bad.append(("probabilities-do-not-sum-to-one",
                        "Poisson(%s)" % rate, tot))
        for k, N in dims:
            axis = [(i + 0.5) / N for i in range(N)]
            hit = 0
            for pt in itertools.product(axis, repeat=k):
                st.script = pt
                st.i = 0
                x = d.draw()
                if st.i == k and x == k - 1:
                    hit += 1
                elif st.i == k and x != k - 1:
                    bad.append(("poisson-value-vs-consumption",
                                "Poisson(%s)" % rate, x, k))
                    break
            m = hit / N ** k
            p = d.probability(k - 1)
            n += 1
            if abs(m - p) > 3.0 * k / N:
                bad.append(("sampler-frequency-differs-from-probability",
                            "Poisson(%s)" % rate, k - 1,
                            "lattice mass %.6g, probability() %.6g" % (m, p)))
    # large rates: on a stream that answers the constant c every time, the
    # product method yields the number of factors c needed to get below
    # exp(-rate), i.e. rate / -ln(c) up to the rounding of each part the rate
    # is split into.  Exhaustive over the constants and rates of the table.
    class Const(Lattice):
        def __init__(self, cst):
            super().__init__()
            self.cst = cst
            self.budget = 0

        def next_float(self):
            self.i += 1
            if self.i > self.budget:
                raise RuntimeError("budget")
            return self.cst
    for rate in (0.5, 3.0, 50, 700.0, 700.5, 745.0, 746.0, 1000, 1400.0,
                 5000.0, 20000, 1e5):
        for cst in (0.5, 0.9, 0.36787944117144233, 0.99, 0.999, 0.05):
            L = -math.log(cst)
            expect = rate / L
            if expect > 3e6:
                continue
            n += 1
            st = Const(cst)
            st.budget = int(expect * 1.5) + 1000
            d = D.DistPoisson(st, rate)
            try:
                x = d.draw()
            except RuntimeError:
                x = None
            tol = 2 + rate / 500.0
            if x is None or abs(x - expect) > tol:
                bad.append(("poisson-large-rate-not-governed-by-the-rate",
                            "Poisson(%s)" % rate,
                            "constant stream %r: draw %r, rate/-ln(c) = %.1f"
                            % (cst, x, expect)))
    return n, bad


# ---------------------------------------------------------------- many uniforms
RANK1_N = 4093          # prime
RANK1_A = 1487          # Korobov generator: g_j = A^j mod N


def rank1_cases():
    """samplers that take more uniforms per draw than a full tensor lattice
    can enumerate (sums of s or n terms, rejection loops)"""
    from scipy import stats
    from pydsol.core import distributions as D
    return [
        ("NegBinomial(16,0.5)", lambda s: D.DistNegBinomial(s, 16, 0.5),
         stats.nbinom(16, 0.5)),
        ("NegBinomial(15,0.5)", lambda s: D.DistNegBinomial(s, 15, 0.5),
         stats.nbinom(15, 0.5)),
        ("NegBinomial(25,0.25)", lambda s: D.DistNegBinomial(s, 25, 0.25),
         stats.nbinom(25, 0.25)),
        ("NegBinomial(40,0.8)", lambda s: D.DistNegBinomial(s, 40, 0.8),
         stats.nbinom(40, 0.8)),
        ("NegBinomial(5,0.3)", lambda s: D.DistNegBinomial(s, 5, 0.3),
         stats.nbinom(5, 0.3)),
        ("Binomial(12,0.5)", lambda s: D.DistBinomial(s, 12, 0.5),
         stats.binom(12, 0.5)),
        ("Binomial(33,0.05)", lambda s: D.DistBinomial(s, 33, 0.05),
         stats.binom(33, 0.05)),
        ("Binomial(40,0.3)", lambda s: D.DistBinomial(s, 40, 0.3),
         stats.binom(40, 0.3)),
        ("Binomial(200,0.7)", lambda s: D.DistBinomial(s, 200, 0.7),
         stats.binom(200, 0.7)),
        ("Poisson(8)", lambda s: D.DistPoisson(s, 8.0), stats.poisson(8.0)),
        ("Poisson(30)", lambda s: D.DistPoisson(s, 30.0), stats.poisson(30.0)),
        ("Poisson(100)", lambda s: D.DistPoisson(s, 100.0),
         stats.poisson(100.0)),
        ("Erlang(0.5,5)", lambda s: D.DistErlang(s, 0.5, 5),
         stats.erlang(5, scale=0.5)),
        ("Erlang(2.5,9)", lambda s: D.DistErlang(s, 2.5, 9),
         stats.erlang(9, scale=2.5)),
        ("Erlang(2.5,12)", lambda s: D.DistErlang(s, 2.5, 12),
         stats.erlang(12, scale=2.5)),
        ("Erlang(0.5,25)", lambda s: D.DistErlang(s, 0.5, 25),
         stats.erlang(25, scale=0.5)),
        ("Gamma(0.5,2)", lambda s: D.DistGamma(s, 0.5, 2.0),
         stats.gamma(0.5, scale=2.0)),
        ("Gamma(2.5,2)", lambda s: D.DistGamma(s, 2.5, 2.0),
         stats.gamma(2.5, scale=2.0)),
        ("Gamma(30,0.5)", lambda s: D.DistGamma(s, 30.0, 0.5),
         stats.gamma(30.0, scale=0.5)),
        ("Beta(2,3)", lambda s: D.DistBeta(s, 2.0, 3.0), stats.beta(2.0, 3.0)),
        ("Beta(0.5,0.5)", lambda s: D.DistBeta(s, 0.5, 0.5),
         stats.beta(0.5, 0.5)),
        ("Pearson5(4,2)", lambda s: D.DistPearson5(s, 4.0, 2.0),
         stats.invgamma(4.0, scale=2.0)),
        ("Pearson6(2,5,1.5)", lambda s: D.DistPearson6(s, 2.0, 5.0, 1.5),
         stats.betaprime(2.0, 5.0, scale=1.5)),
        ("Normal(1,2)", lambda s: D.DistNormal(s, 1.0, 2.0),
         stats.norm(1.0, 2.0)),
        ("LogNormal(0,0.5)", lambda s: D.DistLogNormal(s, 0.0, 0.5),
         stats.lognorm(0.5)),
    ]


def rank1_worker(name):
    """all N points of a rank-one (Korobov) lattice in as many dimensions as
    the sampler asks for: the mean and the standard deviation of the N draws
    against those of the declared distribution.  A coarse oracle (the lattice's own error on the
    unchanged library is reported) for samplers no tensor lattice reaches.
    Tolerances: mean within 0.15 sd (largest error on the unchanged library
    0.04), sd ratio within [0.8, 1.25] (observed 0.92..1.05)."""
    np = np_()
    Lattice = make_stream()
    N, A = RANK1_N, RANK1_A
    gens = [pow(A, j, N) for j in range(4096)]

    class Rank1(Lattice):
        def __init__(self):
            super().__init__()
            self.point = 0
            self.j = 0
            self.maxj = 0

        def next_float(self):
            j = self.j
            self.j += 1
            if self.j > self.maxj:
                self.maxj = self.j
            if j >= 200000:
                raise RuntimeError("draw does not return")
            # coordinate j of lattice point `point`, shifted to the cell
            # centre: never 0 or 1
            return ((self.point * gens[j % 4096] + (j // 4096)) % N + 0.5) / N
    mk, ref = [(m, r) for nm, m, r in rank1_cases() if nm == name][0]
    st = Rank1()
    d = mk(st)
    xs = []
    bad = []
    # (point 0 has all coordinates equal: a rejection loop would never
    # leave it; the remaining N-1 points are equidistributed as well)
    for i in range(1, N):
        st.point = i
        st.j = 0
        try:
            xs.append(float(d.draw()))
        except Exception as ex:  # noqa
            bad.append(("draw-raises-on-a-lattice-point", name, i,
                        type(ex).__name__))
            break
    info = {"name": name, "points": len(xs), "dims": st.maxj}
    if bad or len(xs) < N - 1:
        return info, bad
    a = np.array(xs)
    m, s = float(ref.mean()), float(ref.std())
    lm, ls = float(a.mean()), float(a.std())
    info.update(mean_err_sd=abs(lm - m) / s, sd_ratio=ls / s)
    if not abs(lm - m) <= 0.15 * s:
        bad.append(("sample-mean-off-the-declared-distribution", name,
                    "lattice mean %.6g, declared %.6g (sd %.4g), %d "
                    "dimensions" % (lm, m, s, st.maxj)))
    # (the spread of a product of > 64 coordinates of one Korobov lattice
    # is damped by the lattice itself - observed 0.69 for Poisson(100) on
    # the unchanged library - so it is only demanded below that)
    if st.maxj <= 64 and not 0.8 <= ls / s <= 1.25:
        bad.append(("sample-spread-off-the-declared-distribution", name,
                    "lattice sd %.6g, declared %.6g" % (ls, s)))
    return info, bad


def closed_form_draws():
    """samplers whose draw is a closed-form function of the uniforms it takes
    (inverse transform / sum of logarithms): exact comparison on every script
    of extreme and ordinary uniforms, incl. the regime where a running product
    underflows"""
    from pydsol.core import distributions as D
    Lattice = make_stream()
    U = [5e-324, 2.0 ** -1000, 2.0 ** -53, 1e-9, 0.25, 0.5, 0.75,
         1 - 2.0 ** -53]
    bad = []
    n = 0

    def close(a, b):
        return a == b or abs(a - b) <= 1e-12 * max(abs(a), abs(b))
    for k in (1, 2, 3, 5, 9):
        for scale in (2.0, 0.5):
            # (uniforms chosen such that a running product either stays a
            # normal number or underflows to exactly zero: a product that
            # lands among the subnormals loses digits first; that regime has
            # probability zero and is not demanded here)
            for script in itertools.product(
                    [2.0 ** -600] + U[2:], repeat=min(k, 3)):
                script = tuple(script) + (0.5,) * (k - len(script))
                st = Lattice()
                st.script = script
                d = D.DistErlang(st, scale, k)
                n += 1
                try:
                    x = d.draw()
                except Exception as ex:  # noqa
                    bad.append(("closed-form-draw-raises",
                                "Erlang(%s,%d)" % (scale, k), list(script),
                                type(ex).__name__))
                    continue
                want = -scale * sum(math.log(u) for u in script)
                if st.i != k or not close(x, want):
                    bad.append(("draw-differs-from-its-closed-form",
                                "Erlang(%s,%d)" % (scale, k), list(script), x,
                                want))
    one = [("Exponential(2)", lambda s: D.DistExponential(s, 2.0),
            lambda u: -2.0 * math.log(u)),
           ("Weibull(1.5,2)", lambda s: D.DistWeibull(s, 1.5, 2.0),
            lambda u: 2.0 * (-math.log(u)) ** (1 / 1.5)),
           ("Uniform(1,4)", lambda s: D.DistUniform(s, 1.0, 4.0),
            lambda u: 1.0 + 3.0 * u),
           ("Geometric(0.25)", lambda s: D.DistGeometric(s, 0.25),
            lambda u: math.floor(math.log(u) / math.log1p(-0.25))),
           ("Triangular(1,2,4)", lambda s: D.DistTriangular(s, 1.0, 2.0, 4.0),
            lambda u: 1.0 + math.sqrt(3.0 * u) if u <= 1 / 3 else
            4.0 - math.sqrt(6.0 * (1 - u)))]
    for name, mk, f in one:
        for u in U + [1 / 3, 0.1, 0.9]:
            st = Lattice()
            st.script = (u,)
            n += 1
            try:
                x = mk(st).draw()
            except Exception as ex:  # noqa
                bad.append(("closed-form-draw-raises", name, [u],
                            type(ex).__name__))
                continue
            want = f(u)
            if st.i != 1 or not close(x, want):
                bad.append(("draw-differs-from-its-closed-form", name, [u], x,
                            want))
    return n, bad[:30]


def cdf_checks():
    np = np_()
    from scipy import stats
    from pydsol.core import distributions as D
    from pydsol.core.utils import erf_inv
    Lattice = make_stream()
    bad = []
    n = 0
    cases = [
        ("Normal(0,1)", D.DistNormal(Lattice(), 0.0, 1.0), stats.norm(0, 1)),
        ("Normal(1,2)", D.DistNormal(Lattice(), 1.0, 2.0), stats.norm(1, 2)),
        ("LogNormal(0,1)", D.DistLogNormal(Lattice(), 0.0, 1.0),
         stats.lognorm(1.0)),
        ("LogNormal(0.5,0.4)", D.DistLogNormal(Lattice(), 0.5, 0.4),
         stats.lognorm(0.4, scale=math.exp(0.5))),
        ("NormalTrunc(0,1,-1,2)", D.DistNormalTrunc(Lattice(), 0.0, 1.0, -1.0,
                                                    2.0),
         stats.truncnorm(-1, 2)),
        ("NormalTrunc(1,2,lo=0)", D.DistNormalTrunc(Lattice(), 1.0, 2.0,
                                                    lo=0.0),
         stats.truncnorm(-0.5, np.inf, loc=1, scale=2)),
        # every way of leaving a bound out
        ("NormalTrunc(0,1,hi=1)", D.DistNormalTrunc(Lattice(), 0.0, 1.0,
                                                    hi=1.0),
         stats.truncnorm(-np.inf, 1.0)),
        ("NormalTrunc(0.5,2,hi=-2)", D.DistNormalTrunc(Lattice(), 0.5, 2.0,
                                                       hi=-2.0),
         stats.truncnorm(-np.inf, -1.25, loc=0.5, scale=2)),
        ("NormalTrunc(0,1,lo=-1)", D.DistNormalTrunc(Lattice(), 0.0, 1.0,
                                                     lo=-1.0),
         stats.truncnorm(-1.0, np.inf)),
        ("NormalTrunc(2,0.5) untruncated", D.DistNormalTrunc(Lattice(), 2.0,
                                                             0.5),
         stats.norm(2.0, 0.5)),
        ("NormalTrunc(0,1,-0.5,0.5)", D.DistNormalTrunc(Lattice(), 0.0, 1.0,
                                                        -0.5, 0.5),
         stats.truncnorm(-0.5, 0.5)),
    ]
    ys = [1e-8, 1e-6, 1e-4, 0.001] + [i / 200 for i in range(1, 200)] + \
        [0.999, 1 - 1e-4, 1 - 1e-6, 1 - 1e-8]
    for name, d, ref in cases:
        # the inverse is built on erf_inv (documented relative error 4.5e-8
        # in the normal deviate); for a truncated normal that error is
        # divided by the probability mass of the untruncated normal inside
        # the bounds
        mass = 1.0
        if name.startswith("NormalTrunc"):
            a_, b_ = ref.support() if hasattr(ref, "support") else (
                -np.inf, np.inf)
            base = stats.norm(d._mu, d._sigma)
            mass = float(base.cdf(b_) - base.cdf(a_))
        xs = [float(x) for x in ref.ppf(np.linspace(1e-7, 1 - 1e-7, 401))]
        prev = -1.0
        for x in xs:
            n += 1
            try:
                c = d.cumulative_probability(x)
            except Exception as ex:  # noqa
                bad.append(("cdf-raises", name, x, type(ex).__name__))
                continue
            if c < prev - 1e-15:
                bad.append(("cdf-not-monotone", name, x, c, prev))
            prev = c
            rc = float(ref.cdf(x))
            if abs(c - rc) > 1e-9:
                bad.append(("cdf-differs-from-closed-form", name, x, c, rc))
            # derivative vs density (central difference)
            h = 1e-5 * max(1.0, abs(x))
            slo, shi = ref.support()
            if x - h <= slo or x + h >= shi:
                continue        # the difference would straddle a bound
            try:
                der = (d.cumulative_probability(x + h)
                       - d.cumulative_probability(x - h)) / (2 * h)
                p = d.probability_density(x)
                if abs(der - p) > 1e-5 * max(1.0, p):
                    bad.append(("cdf-derivative-differs-from-density", name,
                                x, der, p))
            except Exception:  # noqa
                pass
        prevx = -math.inf
        for y in ys:
            n += 1
            try:
                x = d.inverse_cumulative_probability(y)
                back = d.cumulative_probability(x)
            except Exception as ex:  # noqa
                bad.append(("inverse-cdf-raises", name, y, type(ex).__name__))
                continue
            if x < prevx:
                bad.append(("inverse-cdf-not-monotone", name, y, x, prevx))
            prevx = x
            if abs(back - y) > 5e-8 / mass:
                bad.append(("cdf-inverse-roundtrip", name, y, back))
    prev = -math.inf
    for i in range(-1999, 2000):
        y = i / 2000.0
        n += 1
        try:
            x = erf_inv(y)
        except Exception as ex:  # noqa
            bad.append(("erf_inv-raises", y, type(ex).__name__))
            continue
        if x < prev:
            bad.append(("erf_inv-not-monotone", y, x))
        prev = x
        if abs(math.erf(x) - y) > 5e-8:
            bad.append(("erf_inv-roundtrip", y, math.erf(x)))
    return n, bad[:40]


def run(ctx):
    # a sampler or density that does not return ends its unit of work after
    # this many seconds (reported as a violation by vlib.main)
    import os
    os.environ["VERIF_TASK_TIMEOUT_S"] = "150" if ctx.tier == "quick" \
        else "3600"
    cont = [c[0] for c in continuous_cases()]
    disc = [c[0] for c in discrete_cases()]
    ev = 0
    nontriv = 0
    for r in common.pimap(density_worker, cont):
        ev += r["n"]
        for b in r["bad"]:
            ctx.violation("C15:%s:%s" % (b[0], b[1]), "density: %s" % (b,),
                          {"part": "density", "case": r["name"]})
    ctx.part("density grids + quadrature", cases=len(cont))
    worst = []
    finer = ctx.tier != "quick"
    for r in common.pimap(sampler_worker, [(c, finer) for c in cont]):
        ev += r["lattice"]
        nontriv += 1
        worst.append((r["name"], r.get("ks"), r.get("threshold"),
                      r["accepted"], r["lattice"]))
        for b in r["bad"]:
            ctx.violation("C15:%s:%s" % (b[0], b[1]),
                          "sampler push-forward: %s" % (b,),
                          {"part": "sampler", "case": r["name"],
                           "finer": finer})
    for w in worst:
        ctx.part("lattice push-forward %s" % w[0], ks=w[1], threshold=w[2],
                 accepted=w[3], lattice=w[4])
    for r in common.pimap(discrete_worker, disc):
        ev += r["lattice"] + r["n"]
        nontriv += 1
        ctx.part("discrete %s" % r["name"], lattice=r["lattice"],
                 accepted=r["accepted"], worst_mass_difference=r["worst"])
        for b in r["bad"]:
            ctx.violation("C15:%s:%s" % (b[0], b[1]), "discrete: %s" % (b,),
                          {"part": "discrete", "case": r["name"]})
    def limited(fn, what):
        try:
            with common.time_limit(600, what):
                return fn()
        except common.LibraryHang as ex:
            return 0, [("does-not-return", what, str(ex))]
    n, bad = limited(poisson_check, "the Poisson part")
    ev += n
    for b in bad:
        ctx.violation("C15:%s:%s" % (b[0], b[1]), "poisson: %s" % (b,),
                      {"part": "poisson"})
    ctx.part("Poisson by consumption-dimension lattices", evaluations=n)
    n, bad = limited(large_parameter_pmf, "the large-parameter pmf part")
    ev += n
    for b in bad:
        ctx.violation("C15:%s:%s" % (b[0], b[1]), "large parameters: %s" % (b,),
                      {"part": "largepmf"})
    ctx.part("pmf at large parameters", evaluations=n)
    fams = [(f[0], o) for f in sibling_cases()
            for o in ("forward", "reverse", "rotate")]
    ns = 0
    for r in common.pimap(sibling_worker, fams):
        ns += r["n"]
        for b in r["bad"]:
            ctx.violation("C15:%s:%s" % (b[0], b[1]),
                          "instances of one class: %s" % (b,),
                          {"part": "sibling", "family": b[1], "order": b[3]})
    ev += ns
    ctx.part("sibling instances of one class in one process, 3 orders",
             families=len(fams) // 3, evaluations=ns)
    nr = 0
    worst = (0.0, "")
    spread = (1.0, "")
    for info, bad_ in common.pimap(rank1_worker,
                                   [x[0] for x in rank1_cases()]):
        nr += info["points"]
        if info.get("mean_err_sd", 0) > worst[0]:
            worst = (info["mean_err_sd"], info["name"])
        if abs(info.get("sd_ratio", 1.0) - 1.0) > abs(spread[0] - 1.0):
            spread = (info["sd_ratio"], info["name"])
        for b in bad_:
            ctx.violation("C15:%s:%s" % (b[0], b[1]),
                          "rank-one lattice of %d points: %s" % (RANK1_N, b),
                          {"part": "rank1", "name": b[1]})
    ev += nr
    ctx.part("samplers with many uniforms per draw: all %d points of a "
             "rank-one lattice, mean and spread of the draws vs the declared "
             "distribution" % RANK1_N, cases=len(rank1_cases()), draws=nr,
             largest_mean_error_in_sd="%.4f (%s)" % worst,
             most_deviating_sd_ratio="%.4f (%s)" % spread)
    n, bad = limited(closed_form_draws, "the closed-form part")
    ev += n
    for b in bad:
        ctx.violation("C15:%s:%s" % (b[0], b[1]), "closed form: %s" % (b,),
                      {"part": "closedform"})
    ctx.part("closed-form samplers on extreme scripts", evaluations=n)
    n, bad = limited(cdf_checks, "the cdf part")
    ev += n
    for b in bad:
        ctx.violation("C15:%s:%s" % (b[0], b[1]), "cdf: %s" % (b,),
                      {"part": "cdf"})
    ctx.part("cdf / inverse cdf / erf_inv grids", evaluations=n)
    ctx.sample({"case": "Gamma(2.5,2)", "lattice": "256^2 midpoints",
                "oracle": "KS distance of the accepted draws vs "
                "scipy.stats.gamma(2.5, scale=2).cdf"})
    ctx.sample({"case": "Binomial(3,0.25)", "lattice": "16^3",
                "oracle": "lattice mass == probability() exactly"})
    ctx.coverage.update(
        evaluations=ev, distinct_nontrivial=nontriv,
        rule="every (class, parameter) case of the branch-reaching table: "
        "density on an 801-point quantile grid + bounds/mode/outside points + "
        "adaptive quadrature vs an independent closed form; sampler executed "
        "on the complete midpoint lattice N^k of stream answers (k = uniforms "
        "per accepted draw, lattice points whose first attempt is rejected are "
        "discarded) and the push-forward compared with the closed-form cdf "
        "(Kolmogorov distance <= 2/N) or with "
        "probability() (exact where p is a multiple of 1/N); cdf / inverse "
        "cdf / erf_inv grids. distinct_nontrivial = number of (class, "
        "parameter) cases whose sampler was pushed through a lattice.")
    ctx.assumptions += [
        "no random sample is drawn: the literal 'large random sample' wording "
        "is replaced by the lattice push-forward",
        "samplers consuming more than 4 uniforms per accepted draw (Erlang "
        "4<=k<10, Binomial n>4, NegBinomial s>3, Poisson beyond 3 factors, "
        "second and later rejection attempts) are covered only through the "
        "identical loop body at small counts",
        "scipy.stats closed forms are the independent oracle"]


def replay(data):
    part = data.get("part")
    if part == "density":
        return density_worker(data["case"])["bad"][:3] or None
    if part == "sampler":
        return sampler_worker((data["case"],
                               data.get("finer", False)))["bad"][:3] or None
    if part == "discrete":
        return discrete_worker(data["case"])["bad"][:3] or None
    if part == "sibling":
        return sibling_worker((data["family"], data["order"]))["bad"][:3] \
            or None
    if part == "closedform":
        return closed_form_draws()[1][:3] or None
    if data.get("part") == "rank1":
        return rank1_worker(data["name"])[1] or None
    if part == "largepmf":
        return large_parameter_pmf()[1][:3] or None
    if part == "poisson":
        return poisson_check()[1][:3] or None
    return cdf_checks()[1][:3] or None
