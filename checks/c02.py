"""C02 - DEVS execution: each scheduled event runs exactly once, in order.

Bounded-exhaustive enumeration of model programs (trees of handlers that
schedule / cancel / make illegal requests) executed on the real
DEVSSimulatorFloat / Int / Duration under the cooperative scheduler
(sequential mode) and compared with a reference DEVS interpreter.
"""
import itertools

from vlib import common, coopsched, progmc

LEVEL = "exploration"


def run_real(prog, clock, end=progmc.END, driver="start", raw=()):
    """execute prog on the real simulator; returns observation dict"""
    from pydsol.core.experiment import SingleReplication
    simc, T = progmc.time_types()[clock]
    base = progmc.base_of(clock)
    M = progmc.model_class()

    def body(s):
        sim = simc("s")
        m = M(sim, prog, T, base=base, raw=raw)
        sim.initialize(m, SingleReplication("r", base, T(0), T(end)))
        if driver == "start":
            sim.start()
        elif driver == "steps":
            # single steps until nothing executable is left, then start
            for _ in range(400):
                el = sim.eventlist()
                if el.is_empty() or el.peek_first().time > base + T(end):
                    break
                sim.step()
            sim.start()
        elif driver == "upto-beyond":
            # an exclusive bound beyond the end: the horizon is the end
            sim.run_up_to(base + T(end + 1))
        else:
            sim.run_up_to_including(base + T(end))
        s.wait_quiescent()
        out = dict(trace=list(m.trace),
                   clock=float(sim.simulator_time - base),
                   state=sim.run_state.name, rstate=sim.replication_state.name,
                   ill=list(m.ill), cancels=list(m.cancels),
                   runaway=m.runaway,
                   left=sim.eventlist().size())
        sim.cleanup()
        s.wait_quiescent()
        return out
    with common.quiet_stdio():
        r = coopsched.run_one(body)
    if r.failure:
        return dict(failure=r.failure)
    return r.value


def judge(prog, clock, end=progmc.END, driver="start", raw=()):
    """returns list of (kind, detail) disagreements"""
    try:
        got = run_real(prog, clock, end, driver, raw)
    except common.HarnessError:
        raise
    except Exception as ex:  # noqa  (exception escaping into the driver)
        return [("driver-exception", "%s: %s" % (type(ex).__name__, ex))], None
    if got is None:
        return [("no-result", "driver produced nothing")], None
    if "failure" in got:
        return [("scheduler-" + got["failure"][0], got["failure"][1])], None
    ref = progmc.Ref(prog, end=end)
    exp = ref.full_trace()
    bad = []
    if got.get("runaway"):
        bad.append(("runaway-event-loop", got["trace"][:12]))
    if got["trace"] != exp:
        bad.append(("trace", {"got": got["trace"], "expected": exp}))
    # (clock and state after a bound beyond the end are not documented)
    if got["clock"] != float(end) and driver != "upto-beyond":
        bad.append(("final-clock", got["clock"]))
    if (got["state"], got["rstate"]) != ("ENDED", "ENDED") and \
            driver != "upto-beyond":
        bad.append(("final-state", (got["state"], got["rstate"])))
    if driver != "start":
        bad = [(k + ":" + driver, d) for k, d in bad]
    if raw:
        bad = [(k + ":user-event-class", d) for k, d in bad]
    for rec in got["ill"]:
        if not progmc.illegal_ok(rec):
            bad.append(("illegal-%s" % rec[0], rec))
    for c in got["cancels"]:
        if c[1] != "ok":
            bad.append(("cancel-raised", c))
    return bad, got


def nontrivial(prog, trace):
    if len(trace) < 2:
        return False
    times = [t for t, _ in trace]
    tie = len(set(times)) < len(times)
    acts = [a for v in prog.values() for a in v]
    zero = any(a[0] == "s" and a[2] == 0 for a in acts)
    other = any(a[0] in ("c", "ill") for a in acts)
    return tie or zero or other


def worker(task):
    clock, N, rot, chunk, nchunks, with_ill = task
    coopsched.install()
    n = 0
    nontriv = 0
    viols = []
    sample = None
    idx = 0
    for parents in progmc.gen_shapes(N):
        k = len(parents)
        for labs in itertools.product(progmc.LABELS, repeat=k):
            idx += 1
            if idx % nchunks != chunk:
                continue
            for var in progmc.variants(k, cancels=True, illegal=with_ill):
                prog = progmc.build(parents, labs, rot, var)
                n += 1
                bad, got = judge(prog, clock)
                if got is not None and nontrivial(prog, got["trace"]):
                    nontriv += 1
                    if sample is None and k == N and var and var[1][0] == "c":
                        sample = {"clock": clock,
                                  "program": progmc.prog_to_json(prog),
                                  "trace": got["trace"]}
                if var and var[1][0] == "c":
                    # the same cancelling program driven by single steps
                    n += 1
                    b2, _ = judge(prog, clock, driver="steps")
                    bad = bad + [(kd, "driven by step(): %s" % (d,))
                                 for kd, d in b2]
                if k >= 2 and not var:
                    # every second event is an instance of a user subclass of
                    # SimEvent handed to schedule_event(): one event order
                    n += 1
                    b2, _ = judge(prog, clock, raw=set(range(1, k, 2)))
                    bad = bad + [(kd, "odd events of a SimEvent subclass: %s"
                                  % (d,)) for kd, d in b2]
                if not var:
                    # the same horizon reached by the bounded commands
                    for drv in ("upto-beyond", "uptoi-end"):
                        n += 1
                        b2, _ = judge(prog, clock, driver=drv)
                        bad = bad + [(kd, "driver %s: %s" % (drv, d))
                                     for kd, d in b2]
                for kind, detail in bad:
                    viols.append(("C02:%s:%s" % (clock, kind),
                                  "%s clock, program %s: %s %s" % (
                                      clock, progmc.prog_to_json(prog), kind,
                                      detail),
                                  {"clock": clock,
                                   "program": progmc.prog_to_json(prog)},
                                  k * 10 + (1 if var else 0)))
    # collapse to the smallest per signature before sending back
    best = {}
    cnt = {}
    for v in viols:
        cnt[v[0]] = cnt.get(v[0], 0) + 1
        if v[0] not in best or v[3] < best[v[0]][3]:
            best[v[0]] = v
    return dict(clock=clock, n=n, nontrivial=nontriv, sample=sample,
                viols=[(v[0], v[1], v[2], v[3], cnt[v[0]])
                       for v in best.values()])


def wide_worker(task):
    clock, sizes, chunk, nchunks, small = task
    coopsched.install()
    n = 0
    best = {}
    cnt = {}
    sample = None
    for i, prog in enumerate(progmc.wide_programs(sizes, small)):
        if i % nchunks != chunk:
            continue
        n += 1
        bad, got = judge(prog, clock, 20)
        M = len(prog) - 2
        if M <= 6:
            # the same program in a replication that ends exactly at the
            # time of the cancelled event: the later events lie beyond the end
            tgt = prog[M][0][1]
            t_end = prog[-1][tgt][2]
            n += 1
            b2, _ = judge(prog, clock, t_end)
            bad = bad + [(k_ + ":end-at-cancelled-event", "end %s: %s" % (
                t_end, d_), t_end) for k_, d_ in b2]
        if sample is None and got is not None:
            sample = {"clock": clock, "wide_program":
                      progmc.prog_to_json(prog), "trace": got["trace"]}
        for item in bad:
            kind, detail = item[:2]
            end_used = item[2] if len(item) > 2 else 20
            sig = "C02:%s:wide:%s" % (clock, kind)
            cnt[sig] = cnt.get(sig, 0) + 1
            rank = len(prog)
            if sig not in best or rank < best[sig][3]:
                best[sig] = (sig, "%s clock, wide program %s: %s %s" % (
                    clock, progmc.prog_to_json(prog), kind, detail),
                    {"clock": clock, "end": end_used,
                     "program": progmc.prog_to_json(prog)}, rank)
    return dict(clock=clock, n=n, nontrivial=n, sample=sample, wide=True,
                viols=[v + (cnt[v[0]],) for v in best.values()])


def decimal_grid(quick):
    g = [i / 10.0 for i in range(1, 41)]
    g += [i / 3.0 for i in range(1, 12)] + [i / 7.0 for i in range(1, 28)]
    if not quick:
        g += [i / 100.0 for i in range(1, 400, 3)]
    return sorted(set(x for x in g if 0 < x <= 4.0))


def decimal_worker(task):
    """times that are not dyadic rationals: an event requested for time b
    from a handler running at time a must sit at exactly b (ties with the
    events requested for b from elsewhere, an event at the end time runs);
    a relative request for delay d sits at exactly a + d"""
    clock, chunk, nchunks, quick = task
    coopsched.install()
    grid = decimal_grid(quick)
    n = 0
    best, cnt = {}, {}
    idx = 0
    for a in grid:
        for b in grid:
            if not a < b:
                continue
            idx += 1
            if idx % nchunks != chunk:
                continue
            d = b - a
            progs = [("at", {-1: [("s", "at", a, 5, 0), ("s", "at", b, 5, 1)],
                             0: [("s", "at", b, 1, 2), ("s", "at", b, 10, 3)],
                             1: [], 2: [], 3: []})]
            if a + d <= 4.0:
                progs.append(("rel", {
                    -1: [("s", "at", a, 5, 0), ("s", "at", a + d, 5, 1)],
                    0: [("s", "rel", d, 1, 2), ("s", "rel", d, 10, 3)],
                    1: [], 2: [], 3: []}))
            for kind, prog in progs:
                n += 1
                bad, got = judge(prog, clock)
                for b_ in bad[:1]:
                    sig = "C02:decimal-%s:%s" % (kind, b_[0])
                    cnt[sig] = cnt.get(sig, 0) + 1
                    rank = idx
                    if sig not in best or rank < best[sig][3]:
                        rep = {"clock": clock, "end": progmc.END,
                               "program": progmc.prog_to_json(prog)}
                        best[sig] = (sig, "%s clock, handler at %r asks for "
                                     "%s %r: %s" % (clock, a, kind,
                                                    b if kind == "at" else d,
                                                    b_), rep, rank)
    return dict(clock=clock, n=n, nontrivial=n, sample=None, decimal=True,
                viols=[v + (cnt[v[0]],) for v in best.values()])


def burst_worker(task):
    """k events at one time / k distinct times in scrambled order, k far
    beyond the handler trees: the whole order against the reference, under
    start, single steps and the bounded drivers"""
    clock, k = task
    coopsched.install()
    n = 0
    best, cnt = {}, {}
    for name, prog, end in progmc.burst_programs(k):
        for drv in ("start", "steps", "uptoi-end", "upto-beyond"):
            n += 1
            bad, got = judge(prog, clock, end, drv)
            for b_ in bad[:1]:
                sig = "C02:burst:%s:%s" % (name, b_[0])
                cnt[sig] = cnt.get(sig, 0) + 1
                if sig not in best or k < best[sig][3]:
                    rep = {"clock": clock, "end": end,
                           "program": progmc.prog_to_json(prog)}
                    best[sig] = (sig, "%s of %d events on the %s clock "
                                 "(driver %s): %s" % (name, k, clock, drv,
                                                      str(b_)[:400]), rep, k)
    return dict(clock=clock, n=n, nontrivial=n, sample=None, burst=True,
                viols=[v + (cnt[v[0]],) for v in best.values()])


def determinism_selfcheck():
    """replay one program twice and demand identical observations"""
    coopsched.install()
    prog = progmc.build([-1, 0, 0], [(1, 5), (0, 10), (1, 5)], 0,
                        (0, ("c", 2), 1))
    a = run_real(prog, "float")
    b = run_real(prog, "float")
    if a != b:
        raise common.HarnessError("same program, different observations: "
                                  "%r vs %r" % (a, b))


def run(ctx):
    quick = ctx.tier == "quick"
    determinism_selfcheck()
    N = 3 if quick else 4
    nchunks = common.NCPU * (1 if quick else 4)
    rot = 0
    tasks = [(c, N, rot, i, nchunks, quick)
             for c in ("float", "int", "duration") for i in range(nchunks)]
    # replications that do not start at zero (incl. an int clock beyond 2^53)
    tasks += [(c, 3 if not quick else 2, rot, i, 4, True)
              for c in ("int@2^60", "float@100", "float@-10", "duration@1h")
              for i in range(4)]
    if not quick:
        # the full illegal-request table at N=3 as well
        tasks += [(c, 3, 0, i, common.NCPU, True)
                  for c in ("float", "int", "duration")
                  for i in range(common.NCPU)]
    if ctx.seed:
        r2 = 1 + ctx.seed % 2
        tasks += [(c, 3, r2, i, common.NCPU, False)
                  for c in ("float", "int", "duration")
                  for i in range(common.NCPU)]
    sizes = list(range(4, 8)) + list(range(8, 16)) if quick else \
        list(range(4, 9)) + list(range(9, 24))
    wtasks = [(c, sizes, i, common.NCPU, 6 if quick else 7)
              for c in ("float", "int", "duration")
              for i in range(common.NCPU)]
    per = {}
    total = nontriv = 0
    dch = common.NCPU
    dtasks = [(c, i, dch, quick) for c in ("float", "duration")
              for i in range(dch)]
    ks = [1, 2, 3, 5, 8, 9, 12, 16, 17, 24, 25, 26, 32, 33, 34, 40] if quick \
        else list(range(1, 49)) + [64, 65]
    btasks = [(c, k) for k in reversed(ks)
              for c in ("float", "int", "duration")]
    results = itertools.chain(common.pimap(worker, tasks),
                              common.pimap(wide_worker, wtasks),
                              common.pimap(decimal_worker, dtasks),
                              common.pimap(burst_worker, btasks))
    for r in results:
        total += r["n"]
        nontriv += r["nontrivial"]
        key = r["clock"] + (" (wide cancel programs)" if r.get("wide")
                            else " (decimal times)" if r.get("decimal")
                            else " (bursts, ladders)" if r.get("burst")
                            else "")
        per[key] = per.get(key, 0) + r["n"]
        if r["sample"]:
            ctx.sample(r["sample"], limit=3)
        for sig, what, rep, rank, count in r["viols"]:
            ctx.violation(sig, what, rep, rank, count)
    for c, n in sorted(per.items()):
        ctx.part("programs on %s clock" % c, executed=n)
    ctx.coverage.update(
        evaluations=total, distinct_nontrivial=nontriv,
        rule="all handler trees with <= %d scheduled events (<=2 scheduling "
        "actions per handler, delays {0,1,2}, priorities {1,5,10}, kinds "
        "now/rel/abs rotated by position), each alone and with every single "
        "cancel action (who x target x before/after)%s, on the float, int and "
        "Duration simulators; replication [0,%d] so chains cross the horizon; "
        "every cancel-free tree also under run_up_to(end+1) and "
        "run_up_to_including(end) and with its odd events as "
        "instances of a user subclass of SimEvent. "
        "Plus wide programs: construct_model schedules M distinct-time events "
        "(all permutations for M<=6/7, the multiplicative family beyond, M up "
        "to 15/23) and the earliest event cancels each target j. "
        "Plus decimal times: for every pair a<b of a grid of tenths, thirds "
        "and sevenths in (0,4] a handler at a asks for absolute time b and "
        "for the delay b-a, competing with events requested for the same "
        "time from elsewhere (exact ties, the end time included). "
        "Plus bursts of k<=40 (thorough 65) simultaneous events (batch, "
        "chain, fan, strata) and ladders of k distinct times. "
        "Programs are distinct by construction; non-trivial = >=2 executed "
        "events and (time tie or zero delay or cancel or illegal request)"
        % (N, " and every single illegal request (past, negative delay, NaN "
           "abs/rel/event, wrong type)" if quick else
           " (illegal requests: full table at N=3)", progmc.END))
    ctx.assumptions += [
        "reference interpreter: pending list ordered by (time,-priority,"
        "scheduling order), inclusive horizon, warm-up event of priority 10 "
        "scheduled after construct_model",
        "a wrong-typed time may be refused with any exception (undocumented)",
        "sequential scheduler mode: no interleavings (those are C04)"]


def replay(data):
    coopsched.install()
    prog = progmc.prog_from_json(data["program"])
    end = data.get("end", progmc.END)
    bad, got = judge(prog, data["clock"], end)
    for drv in ("upto-beyond", "uptoi-end", "steps"):
        bad = bad + judge(prog, data["clock"], end, drv)[0]
    bad = bad + judge(prog, data["clock"], end,
                      raw=set(range(1, len(prog) - 1, 2)))[0]
    return bad or None
