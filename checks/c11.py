"""C11 - simulation statistics honour warm-up and replication end; publish
true values.

Exhaustive enumeration of observation schedules (times before / exactly at /
after warm-up and replication end, priorities tying with the warm-up event,
values) x statistic type x feeding route x warm-up x clock x run mode
(uninterrupted, stepped through every event, paused by a handler stop),
executed on the real simulator; oracle = reference DEVS order + ordinary
statistics fed the observations at/after warm-up + exact time integral.
"""
import itertools
import math
from fractions import Fraction as Fr

from vlib import common, coopsched

LEVEL = "exploration"
END = 4.0
TIMES = [0.0, 1.0, 2.0, 3.0, 4.0]
PRIOS = [1, 5, 10]
VALS = [1.0, 2.5]
KINDS = ("counter", "tally", "wtally", "pers")
VIAS = ("direct", "default", "custom")

_CUSTOM = None


def same(a, b):
    if isinstance(a, float) and isinstance(b, float) and a != a and b != b:
        return True
    return a == b


def pieces():
    global _CUSTOM
    from pydsol.core.pubsub import EventType
    if _CUSTOM is None:
        _CUSTOM = (EventType("C11_CUSTOMVAL"), EventType("C11_CUSTOMVAL_B"))
    return _CUSTOM


def getters(kind):
    if kind == "counter":
        return [("n", lambda s: s.n()), ("count", lambda s: s.count())]
    if kind == "tally":
        return [("n", lambda s: s.n()), ("sum", lambda s: s.sum()),
                ("mean", lambda s: s.mean()), ("min", lambda s: s.min()),
                ("max", lambda s: s.max()), ("var", lambda s: s.variance()),
                ("svar", lambda s: s.variance(False)),
                ("sd", lambda s: s.stdev()), ("skew", lambda s: s.skewness()),
                ("kurt", lambda s: s.kurtosis())]
    return [("n", lambda s: s.n()), ("wsum", lambda s: s.weighted_sum()),
            ("wmean", lambda s: s.weighted_mean()),
            ("min", lambda s: s.min()), ("max", lambda s: s.max()),
            ("wvar", lambda s: s.weighted_variance()),
            ("wsvar", lambda s: s.weighted_variance(False)),
            ("wsd", lambda s: s.weighted_stdev())]


def snap(kind, st):
    out = []
    for nm, f in getters(kind):
        try:
            out.append((nm, f(st)))
        except Exception as ex:  # noqa
            out.append((nm, "raised " + type(ex).__name__))
    return out


_CLS = None


def classes():
    global _CLS
    if _CLS is not None:
        return _CLS
    from pydsol.core.model import DSOLModel
    from pydsol.core.pubsub import EventListener, EventProducer
    from pydsol.core.interfaces import StatEvents
    from pydsol.core import statistics as S
    CUSTOM, CUSTOM2 = pieces()
    GET = {"N_EVENT": lambda s: s.n(), "COUNT_EVENT": lambda s: s.count(),
           "MIN_EVENT": lambda s: s.min(), "MAX_EVENT": lambda s: s.max(),
           "SUM_EVENT": lambda s: s.sum(), "MEAN_EVENT": lambda s: s.mean(),
           "POPULATION_VARIANCE_EVENT": lambda s: s.variance(),
           "SAMPLE_VARIANCE_EVENT": lambda s: s.variance(False),
           "POPULATION_STDEV_EVENT": lambda s: s.stdev(),
           "SAMPLE_STDEV_EVENT": lambda s: s.stdev(False),
           "POPULATION_SKEWNESS_EVENT": lambda s: s.skewness(),
           "SAMPLE_SKEWNESS_EVENT": lambda s: s.skewness(False),
           "POPULATION_KURTOSIS_EVENT": lambda s: s.kurtosis(),
           "SAMPLE_KURTOSIS_EVENT": lambda s: s.kurtosis(False),
           "POPULATION_EXCESS_K_EVENT": lambda s: s.excess_kurtosis(),
           "SAMPLE_EXCESS_K_EVENT": lambda s: s.excess_kurtosis(False),
           "WEIGHTED_SUM_EVENT": lambda s: s.weighted_sum(),
           "WEIGHTED_MEAN_EVENT": lambda s: s.weighted_mean(),
           "WEIGHTED_POPULATION_VARIANCE_EVENT":
               lambda s: s.weighted_variance(),
           "WEIGHTED_SAMPLE_VARIANCE_EVENT":
               lambda s: s.weighted_variance(False),
           "WEIGHTED_POPULATION_STDEV_EVENT": lambda s: s.weighted_stdev(),
           "WEIGHTED_SAMPLE_STDEV_EVENT":
               lambda s: s.weighted_stdev(False)}

    class Sub(EventListener):
        def __init__(self, stat, bad):
            self.stat = stat
            self.bad = bad
            self.n = 0

        def notify(self, e):
            self.n += 1
            g = GET.get(e.event_type.name)
            if g is not None:
                try:
                    v = g(self.stat)
                except Exception as ex:  # noqa
                    v = "raised " + type(ex).__name__
                if not same(v, e.content):
                    self.bad.append((e.event_type.name, e.content, v))

    class M(DSOLModel):
        """(the model is also a container of the entities in the system, and
        empty while it is being constructed: its truth value is False)"""

        def __len__(self):
            return 0

        def __init__(self, sim, T, kind, obs, via, stop_at=None):
            super().__init__(sim)
            self.T = T
            self.kind = kind
            self.obs = obs
            self.via = via
            self.stop_at = stop_at
            self.bad = []
            self.err = []
            self.nobs = 0

        def construct_model(self):
            sim = self.simulator
            self.p = EventProducer()
            # a run logger that takes itself off the simulator's list the
            # first time it hears of the warm-up / the end of the
            # replication; it subscribed before the statistics did
            from pydsol.core.interfaces import ReplicationInterface as RI_

            class OneShot(EventListener):
                def notify(self_, e):
                    sim.remove_listener(e.event_type, self_)
            one = OneShot()
            sim.add_listener(RI_.WARMUP_EVENT, one)
            sim.add_listener(RI_.END_REPLICATION_EVENT, one)
            K = {"counter": S.SimCounter, "tally": S.SimTally,
                 "wtally": S.SimWeightedTally,
                 "pers": S.SimPersistent}[self.kind]
            et = {"counter": StatEvents.DATA_EVENT,
                  "tally": StatEvents.DATA_EVENT,
                  "wtally": StatEvents.WEIGHT_DATA_EVENT,
                  "pers": StatEvents.TIMESTAMP_DATA_EVENT}[self.kind]
            if self.via == "direct":
                # (two statistics of a kind carry the same descriptive name:
                # they are told apart by their keys)
                self.st = K("k", "same name", sim)
                self.st2 = K("k2", "same name", sim)
            elif self.via == "default":
                self.st = K("k", "same name", sim, producer=self.p,
                            event_type=et)
                self.st2 = K("k2", "same name", sim, producer=self.p,
                             event_type=et)
                self.et = et
            else:
                # each statistic listens to two custom event types
                self.st = K("k", "same name", sim)
                self.st.listen_to(self.p, CUSTOM)
                self.st.listen_to(self.p, CUSTOM2)
                self.st2 = K("k2", "same name", sim)
                self.st2.listen_to(self.p, CUSTOM)
                self.st2.listen_to(self.p, CUSTOM2)
                self.et = CUSTOM
            # a third statistic whose subscriber feeds it again from inside
            # the notification (a door keeper that books a correction):
            # every value it publishes still equals the query at that moment
            self.st3 = K("k3", "same name", sim)
            self.sub3 = Sub(self.st3, self.bad)
            model_ = self

            class Reenter(EventListener):
                busy = False

                def notify(self_, e):
                    if self_.busy:
                        return
                    self_.busy = True
                    try:
                        model_.feed(model_.st3, 1.0)
                    finally:
                        self_.busy = False
            self.st3.add_listener(StatEvents.OBSERVATION_ADDED_EVENT,
                                  Reenter())
            for nm in dir(StatEvents):
                if nm.endswith("_EVENT") and "DATA" not in nm:
                    self.st3.add_listener(getattr(StatEvents, nm), self.sub3)
            self.sub = Sub(self.st, self.bad)
            for nm in dir(StatEvents):
                if nm.endswith("_EVENT") and "DATA" not in nm:
                    self.st.add_listener(getattr(StatEvents, nm), self.sub)
            for (t, pr, v) in self.obs:
                sim.schedule_event_abs(self.T(t), self, "ob", pr, v=v)

        def feed(self, st, v):
            t = self.simulator.simulator_time
            if self.kind == "counter":
                st.register(int(v))
            elif self.kind == "tally":
                st.register(v)
            elif self.kind == "wtally":
                st.register(v - 1.0, v)
            else:
                st.register(t, v)

        def ob(self, v):
            s = coopsched.Sched.cur
            if s is not None and s.killed:
                raise coopsched.Kill()
            sim = self.simulator
            t = sim.simulator_time
            k = self.nobs
            self.nobs += 1
            if self.nobs > 60:
                return            # watchdog against a runaway run loop
            try:
                if self.via == "direct":
                    self.feed(self.st3, v)
                    for st in (self.st, self.st2):
                        if self.kind == "counter":
                            st.register(int(v))
                        elif self.kind == "tally":
                            st.register(v)
                        elif self.kind == "wtally":
                            st.register(v - 1.0, v)
                        else:
                            st.register(t, v)
                else:
                    et_k = self.et
                    if self.et is CUSTOM and k % 2 == 0:
                        et_k = CUSTOM2       # alternate the two custom types
                    if self.kind == "counter":
                        self.p.fire(et_k, int(v))
                    elif self.kind == "tally":
                        self.p.fire(et_k, v)
                    elif self.kind == "wtally":
                        self.p.fire(et_k, (v - 1.0, v))
                    elif self.et is CUSTOM:
                        self.p.fire(et_k, v)
                    else:
                        self.p.fire_timed(t, et_k, v)
            except Exception as ex:  # noqa
                self.err.append("%s: %s" % (type(ex).__name__, ex))
            if self.stop_at == k:
                self.stop_at = None
                sim.stop()
    _CLS = (M, Sub)
    return _CLS


def kept_obs(obs, warm, end=END):
    """reference DEVS order; the warm-up event (priority 10, scheduled after
    the observations) resets what was registered before it"""
    evs = sorted([(t, -pr, i, v) for i, (t, pr, v) in enumerate(obs)]
                 + [(warm, -10, len(obs), None)])
    kept = []
    for (t, npr, i, v) in evs:
        if t > end:
            continue
        if v is None:
            kept = []
            continue
        kept.append((t, v))
    return kept


def expected(kind, kept, end=END):
    """ordinary statistic fed the kept observations (+ exact integral)"""
    from pydsol.core import statistics as S
    if kind == "counter":
        c = S.Counter("x")
        for t, v in kept:
            c.register(int(v))
        return snap(kind, c), None
    if kind == "tally":
        c = S.Tally("x")
        for t, v in kept:
            c.register(v)
        return snap(kind, c), None
    if kind == "wtally":
        c = S.WeightedTally("x")
        for t, v in kept:
            # weight v - 1: the observations with value 1.0 carry weight zero
            # (they still count in n, min and max)
            c.register(v - 1.0, v)
        return snap(kind, c), None
    c = S.TimestampWeightedTally("x")
    for t, v in kept:
        c.register(t, v)
    c.end_observations(end)
    exact = None
    if kept:
        pts = kept + [(end, 0.0)]
        integ = sum(Fr(v0) * (Fr(t1) - Fr(t0))
                    for (t0, v0), (t1, _) in zip(pts, pts[1:]))
        span = Fr(end) - Fr(kept[0][0])
        exact = (float(integ), float(integ / span) if span > 0 else None)
    return snap(kind, c), exact


def run_real(clock, kind, obs, via, warm, mode):
    from pydsol.core.experiment import SingleReplication
    from pydsol.core.utils import DSOLError
    from checks.c06 import clock_types
    base_off = 0.0
    if "@" in clock:
        clock, off = clock.split("@")
        base_off = float(off)
    simc, T = clock_types()[clock]
    if clock == "int":
        T = int          # C06 scales its int clock by 8; here ticks are units
    M, Sub = classes()
    obs = [(t + base_off, pr, v) for t, pr, v in obs]

    def body(s):
        sim = simc("s")
        m = M(sim, T, kind, obs, via,
              stop_at=(0 if mode == "stop-at-first" else None))
        sim.initialize(m, SingleReplication("r", T(base_off), T(warm),
                                            T(END)))
        s.wait_quiescent()
        notes = []
        if mode in ("upto-mid", "uptoi-mid", "upto-1-step"):
            # a bounded leg first; the plain start() below must finish the
            # replication whatever kind of bound paused it
            try:
                if mode == "upto-mid":
                    sim.run_up_to(T(base_off + 2.0))
                elif mode == "uptoi-mid":
                    sim.run_up_to_including(T(base_off + 2.0))
                else:
                    sim.run_up_to(T(base_off + 1.0))
                s.wait_quiescent()
                if mode == "upto-1-step":
                    sim.step()
            except DSOLError:
                pass
        if mode == "step-all":
            for _ in range(len(obs) + 2):
                try:
                    sim.step()
                except DSOLError:
                    break
        for _ in range(3):
            try:
                sim.start()
            except DSOLError:
                break
            s.wait_quiescent()
            if sim.run_state.name == "ENDED":
                break
        st = m.st
        got = snap(kind, st)
        got2 = snap(kind, m.st2)
        active = st.isactive() if kind == "pers" else None
        active2 = m.st2.isactive() if kind == "pers" else None
        # another model instance of the same class on its own simulator is
        # set up in the meantime: it has its own statistics under the same keys
        sim_b = simc("other")
        m_b = M(sim_b, T, kind, obs[:1], via)
        sim_b.initialize(m_b, SingleReplication("r", T(base_off), T(warm),
                                                T(END)))
        s.wait_quiescent()
        try:
            same_obj = sim.model.get_output_statistic("k") is st and \
                st.key == "k" and m.st2.key == "k2" and \
                m.get_output_statistic("k2") is m.st2 and \
                m_b.get_output_statistic("k") is m_b.st and \
                m_b.st is not st
        except Exception:  # noqa
            same_obj = False
        sim_b.cleanup()
        s.wait_quiescent()
        state = (sim.run_state.name, sim.replication_state.name)
        sim.cleanup()
        s.wait_quiescent()
        return dict(got=got, got2=got2, active=active, active2=active2,
                    same_obj=same_obj,
                    bad=list(m.bad), err=list(m.err), state=state,
                    nobs=m.nobs, published=m.sub.n)
    with common.quiet_stdio():
        r = coopsched.run_one(body)
    if r.failure:
        return {"failure": r.failure}
    return r.value


def judge(case):
    clock, kind, obs, via, warm, mode = case
    if clock.startswith("int") and any(t != int(t) for t, _, _ in obs):
        return [], None
    try:
        o = run_real(clock, kind, obs, via, warm, mode)
    except common.HarnessError:
        raise
    except Exception as ex:  # noqa
        return [("driver-exception", type(ex).__name__, str(ex)[:100])], None
    if o is None:
        return [("no-result",)], None
    if "failure" in o:
        return [("scheduler-" + o["failure"][0], str(o["failure"][1])[:100])], \
            None
    bad = []
    if o["state"] != ("ENDED", "ENDED"):
        bad.append(("replication-did-not-end", o["state"]))
    if o["err"]:
        bad.append(("observation-raised", o["err"][0]))
    if o["bad"]:
        bad.append(("published-value-differs-from-getter", o["bad"][0]))
    if not o["same_obj"]:
        bad.append(("statistic-not-retrievable-from-model",))
    off = float(clock.split("@")[1]) if "@" in clock else 0.0
    kept = [(t + off, v) for t, v in kept_obs(obs, warm)]
    exp, exact = expected(kind, kept, END + off)
    for (nm, g), (_, e) in zip(o["got"], exp):
        if kind == "pers" and nm in ("n", "min", "max"):
            continue
        if not same(g, e):
            bad.append(("getter:" + nm, g, e, kept))
    if [repr(x) for x in o["got2"]] != [repr(x) for x in o["got"]]:
        bad.append(("second-statistic-of-the-same-kind-differs", o["got2"],
                    o["got"]))
    if kind == "pers" and o["active2"] is not False:
        bad.append(("second-persistent-not-closed-at-replication-end",
                    o["active2"]))
    if kind == "pers":
        if o["active"] is not False:
            bad.append(("persistent-not-closed-at-replication-end",
                        o["active"]))
        d = dict(o["got"])
        if exact is not None:
            if not (isinstance(d["wsum"], float)
                    and abs(d["wsum"] - exact[0]) <= 1e-12):
                bad.append(("time-integral", d["wsum"], exact[0], kept))
            if exact[1] is not None and not (
                    isinstance(d["wmean"], float)
                    and abs(d["wmean"] - exact[1]) <= 1e-12):
                bad.append(("time-average", d["wmean"], exact[1], kept))
    return bad, o


LONG = [[(0.0, 5, 1.0), (1.0, 5, 2.5), (1.0, 1, 1.0), (2.0, 10, 2.5),
         (3.0, 5, 2.5), (3.0, 5, 1.0), (4.0, 5, 2.5)],
        [(0.0, 10, 2.5), (1.0, 5, 1.0), (2.0, 5, 1.0), (2.0, 5, 1.0),
         (3.0, 1, 2.5), (4.0, 10, 1.0)],
        [(1.0, 5, 1.0), (1.0, 5, 2.5), (2.0, 5, 1.0), (2.0, 5, 2.5),
         (3.0, 5, 1.0), (3.0, 5, 2.5), (3.0, 5, 2.5), (4.0, 1, 1.0)]]


def schedules(k):
    ob1 = [(t, p, v) for t in TIMES for p in PRIOS for v in VALS]
    if k == "long":
        # enough observations for every published statistic to be defined
        # (sample kurtosis needs four)
        return [tuple(x) for x in LONG]
    if k == 0:
        return [()]
    if k == 1:
        return [(o,) for o in ob1]
    out = []
    for combo in itertools.product(ob1, repeat=k):
        # canonical: the first observation carries value 1.0 (halves the
        # space; values are symmetric up to relabelling)
        if combo[0][2] != 1.0:
            continue
        out.append(combo)
    return out


def worker(task):
    clock, kind, via, warm, mode, k, chunk, nchunks = task
    coopsched.install()
    n = 0
    nontriv = 0
    best, cnt = {}, {}
    sample = None
    for i, obs in enumerate(schedules(k)):
        if i % nchunks != chunk:
            continue
        case = (clock, kind, list(obs), via, warm, mode)
        bad, o = judge(case)
        if o is None and not bad:
            continue
        n += 1
        if len(kept_obs(list(obs), warm)) >= 1 and (k == "long" or k >= 2):
            nontriv += 1
        if sample is None and k == 2 and o is not None:
            sample = {"case": [clock, kind, [list(x) for x in obs], via, warm,
                               mode], "getters": common.jsonable(o["got"])}
        for b in bad[:2]:
            sig = "C11:%s:%s:%s:%s" % (kind, via, mode, b[0])
            cnt[sig] = cnt.get(sig, 0) + 1
            if sig not in best or len(obs) < best[sig][3]:
                best[sig] = (sig, "%s clock, Sim%s fed %s, warm-up %s, %s, "
                             "observations (time, priority, value) %s: %s" % (
                                 clock, kind, via, warm, mode, list(obs),
                                 common.jsonable(b)),
                             {"case": [clock, kind, [list(x) for x in obs],
                                       via, warm, mode]}, len(obs))
    return dict(n=n, nontrivial=nontriv, sample=sample,
                viols=[v + (cnt[v[0]],) for v in best.values()])


def run(ctx):
    quick = ctx.tier == "quick"
    coopsched.install()
    tasks = []
    for kind in KINDS:
        for via in VIAS:
            for warm in (0.0, 2.0, END):
                for mode in ("run", "step-all", "stop-at-first", "upto-mid",
                             "uptoi-mid", "upto-1-step"):
                    for clock in ("float", "duration", "float@100",
                                  "duration@-10"):
                        if quick and clock != "float" and mode != "run":
                            continue
                        for k in (0, 1, 2, "long"):
                            nch = 4 if k == 2 else 1
                            for c in range(nch):
                                tasks.append((clock, kind, via, warm, mode, k,
                                              c, nch))
    if not quick:
        for kind in KINDS:
            for warm in (0.0, 2.0, END):
                for c in range(32):
                    tasks.append(("float", kind, "direct", warm, "run", 3, c,
                                  32))
        for kind in KINDS:
            for c in range(4):
                tasks.append(("int", kind, "direct", 2.0, "run", 2, c, 4))
    total = nontriv = 0
    for r in common.pimap(worker, tasks):
        total += r["n"]
        nontriv += r["nontrivial"]
        if r["sample"]:
            ctx.sample(r["sample"], limit=3)
        for sig, what, rep, rank, count in r["viols"]:
            ctx.violation(sig, what, rep, rank, count)
    ctx.part("observation schedules executed", runs=total)
    ctx.coverage.update(
        evaluations=total, distinct_nontrivial=nontriv,
        rule="all observation schedules of <= 2 (thorough <= 3) observations "
        "with time in %s (warm-up 0 or 2, end 4), priority in %s (10 ties "
        "with the warm-up event), value in %s x statistic in %s x feeding "
        "route in %s x run mode in {uninterrupted, stepped through every "
        "event then started, paused by a handler stop at the first "
        "observation and resumed, a run_up_to(2) / run_up_to_including(2) / "
        "run_up_to(1)+step() leg followed by plain start()} x clock in {float, Duration}. Oracle: "
        "reference DEVS order decides which observations lie at/after the "
        "warm-up reset; the statistic must equal (bit-identical getters) an "
        "ordinary Counter/Tally/WeightedTally fed those observations; the "
        "persistent additionally the exact rational time integral/average to "
        "the replication end and be closed; statistic retrievable from the "
        "model; every published value equals the getter at that moment. "
        "non-trivial = 2+ observations of which at least one survives the "
        "warm-up." % (TIMES, PRIOS, VALS, list(KINDS), list(VIAS)))
    ctx.assumptions += [
        "n/min/max of the persistent are not compared (see C10)",
        "the ordinary statistics themselves are checked by C09/C10"]


def replay(data):
    coopsched.install()
    c = data["case"]
    bad, o = judge((c[0], c[1], [tuple(x) for x in c[2]], c[3], c[4], c[5]))
    return bad or None
