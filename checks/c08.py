"""C08 - publish/subscribe delivery.

Explicit-state BFS over subscription states of one real EventProducer to the
fixed point: every reachable state x every (un)subscribe form x every fire,
each fire paired with a re-entrancy script for the listeners being notified;
oracle = dict-of-lists reference with snapshot-at-fire semantics.  Plus the
full payload / metadata table.
"""
import collections
import itertools

from vlib import common

LEVEL = "model_checking"

_TYPES = {}


def _declared_in_conveyor():
    from pydsol.core.pubsub import EventType
    return EventType("C08_STATE_CHANGED")


def _declared_in_machine():
    from pydsol.core.pubsub import EventType
    return EventType("C08_STATE_CHANGED")


def types(kind="distinct"):
    """'distinct': two event types with different names; 'samename': two
    event types with the SAME name declared in different places (the defining
    place is part of an event type's identity)"""
    if kind not in _TYPES:
        from pydsol.core.pubsub import EventType
        if kind == "distinct":
            _TYPES[kind] = [EventType("C08_T0"), EventType("C08_T1")]
        else:
            _TYPES[kind] = [_declared_in_conveyor(), _declared_in_machine()]
    return _TYPES[kind]


def eq_class(kind):
    """'twins': listeners 0 and 1 are two objects that compare equal (value
    equality, same hash); the producer treats equal listeners as one
    subscriber (duplicate subscriptions are ignored, unsubscribing removes
    the subscribed one)"""
    if kind == "twins":
        return lambda i: 0 if i in (0, 1) else i
    return lambda i: i


def make_world(NL, kind="distinct"):
    from pydsol.core.pubsub import EventListener, EventProducer
    T = types("distinct" if kind in ("twins", "falsy") else kind)
    ec = eq_class(kind)

    class Lst(EventListener):
        def __init__(self, i, world):
            self.i = i
            self.w = world

        def __eq__(self, other):
            return isinstance(other, Lst) and ec(other.i) == ec(self.i) \
                and other.w is self.w

        def __hash__(self):
            return hash(("C08", ec(self.i)))

        def __len__(self):
            # 'falsy': listeners that are empty containers (an inbox), so
            # their truth value is False
            if kind == "falsy":
                return 0
            raise TypeError("not a container")

        def notify(self, e):
            w = self.w
            w.log.append((self.i, [k for k, t in enumerate(T)
                                   if t is e.event_type][0], e.content,
                          getattr(e, "timestamp", None)))
            act = w.script.get(self.i)
            if act and not w.in_script.get(self.i):
                w.in_script[self.i] = True
                try:
                    w.apply(act)
                finally:
                    w.in_script[self.i] = False

    class World:
        def __init__(self):
            self.p = EventProducer()
            self.L = [Lst(i, self) for i in range(NL)]
            self.log = []
            self.script = {}
            self.in_script = {}

        def apply(self, op):
            k = op[0]
            p = self.p
            if k == "add":
                p.add_listener(T[op[1]], self.L[op[2]])
            elif k == "rem":
                p.remove_listener(T[op[1]], self.L[op[2]])
            elif k == "ra":
                p.remove_all_listeners(
                    None if op[1] is None else T[op[1]],
                    None if op[2] is None else self.L[op[2]])
            elif k == "fire":
                p.fire(T[op[1]], op[2])
            elif k == "firet":
                p.fire_timed(op[2], T[op[1]], "c")
    World.ec = staticmethod(ec)
    World.T = T
    return World


class Ref:
    def __init__(self, NT, ec=None):
        self.ec = ec or (lambda i: i)
        self.NT = NT
        self.d = {t: [] for t in range(NT)}
        self.log = []
        self.script = {}
        self.ins = {}

    def apply(self, op):
        k = op[0]
        ec = self.ec

        def first_equal(lst, l):
            for x in lst:
                if ec(x) == ec(l):
                    return x
            return None
        if k == "add":
            if first_equal(self.d[op[1]], op[2]) is None:
                self.d[op[1]].append(op[2])
        elif k == "rem":
            x = first_equal(self.d[op[1]], op[2])
            if x is not None:
                self.d[op[1]].remove(x)
        elif k == "ra":
            ts = range(self.NT) if op[1] is None else [op[1]]
            for t in ts:
                if op[2] is None:
                    self.d[t] = []
                else:
                    x = first_equal(self.d[t], op[2])
                    if x is not None:
                        self.d[t].remove(x)
        elif k in ("fire", "firet"):
            snap = list(self.d[op[1]])
            for l in snap:
                self.log.append((l, op[1], op[2] if k == "fire" else "c",
                                 None if k == "fire" else op[2]))
                act = self.script.get(l)
                if act and not self.ins.get(l):
                    self.ins[l] = True
                    self.apply(act)
                    self.ins[l] = False

    def canon(self):
        return tuple(tuple(self.d[t]) for t in range(self.NT))


def alphabet(NT, NL, sub_types, rich):
    """sub_types: types that can be subscribed to"""
    base = [("add", t, l) for t in sub_types for l in range(NL)]
    base += [("rem", t, l) for t in sub_types for l in range(NL)]
    base += [("ra", None, None)]
    base += [("ra", t, None) for t in sub_types]
    base += [("ra", None, l) for l in range(NL)]
    base += [("ra", t, l) for t in sub_types for l in range(NL)]
    other = (sub_types[0] + 1) % NT
    reent = [None, ("rem", sub_types[0], 0), ("rem", sub_types[0], NL - 1),
             ("add", sub_types[0], NL - 1), ("add", other, 1),
             ("fire", other, "n"), ("fire", sub_types[0], "n"),
             ("firet", other, 7), ("ra", None, None),
             ("ra", sub_types[0], None), ("ra", None, NL - 1)]
    fires = []
    for t in range(NT):
        for kind, payload in (("fire", "x"), ("firet", 3.5)):
            for l in range(NL):
                for a in reent:
                    fires.append(((kind, t, payload), {l: a} if a else {}))
            if rich:
                for l1, l2 in itertools.permutations(range(NL), 2):
                    for a1 in reent[1:6]:
                        for a2 in (reent[2], reent[5], reent[8]):
                            fires.append(((kind, t, payload),
                                          {l1: a1, l2: a2}))
        fires.append((("firet", t, 4), {}))
    return [(o, {}) for o in base] + fires


def replay_hist(World, NT, hist):
    w = World()
    r = Ref(NT, getattr(World, "ec", None))
    for op, script in hist:
        w.script = script
        r.script = script
        del w.log[:]
        del r.log[:]
        w.apply(op)
        r.apply(op)
    return w, r


def check_transition(World, NT, hist, step):
    """returns (list of disagreements, canon)"""
    bad = []
    try:
        w, r = replay_hist(World, NT, hist + [step])
    except Exception as ex:  # noqa
        return [("exception", type(ex).__name__, str(ex)[:100])], None
    if w.log != r.log:
        bad.append(("delivery", list(w.log), list(r.log)))
    if w.p.has_listeners() != any(r.canon()):
        bad.append(("has_listeners", w.p.has_listeners(), r.canon()))
    # probe: who is subscribed now, in which order (observed by firing)
    w.script = {}
    r.script = {}
    for t in range(NT):
        del w.log[:]
        del r.log[:]
        w.apply(("fire", t, "probe"))
        r.apply(("fire", t, "probe"))
        if w.log != r.log:
            bad.append(("subscribers-after", t, list(w.log), list(r.log)))
    # the state of the search: the reference state and what the real
    # producer remembers (all its attributes; listeners and event types by
    # their index)
    Ts = getattr(World, "T", None) or []

    def lab(o):
        for i, l in enumerate(w.L):
            if o is l:
                return "L%d" % i
        for i, t_ in enumerate(Ts):
            if o is t_:
                return "T%d" % i
        return None
    try:
        fp = common.fingerprint(w.p, lab)
    except Exception:  # noqa
        fp = None
    return bad, (r.canon(), fp)


def bfs(task):
    try:
        return bfs_(task, True)
    except common.FingerprintTooFine as ex:
        r = bfs_(task, False)
        r["fp_fallback"] = str(ex)
        return r


def bfs_(task, use_fp):
    name, NT, NL, sub_types, rich = task[:5]
    kind = task[5] if len(task) > 5 else "distinct"
    World = make_world(NL, kind)
    alpha = alphabet(NT, NL, sub_types, rich)
    r0 = Ref(NT, eq_class(kind))
    def key(c_):
        return c_ if use_fp else c_[0]
    seen = {key(check_transition(World, NT, [],
                                 (("ra", None, None), {}))[1]): []}
    refstates = set()
    frontier = collections.deque([[]])
    trans = 0
    viols = []
    outcomes = set()
    maxdepth = 0
    while frontier:
        h = frontier.popleft()
        maxdepth = max(maxdepth, len(h))
        for step in alpha:
            trans += 1
            bad, c = check_transition(World, NT, h, step)
            if bad:
                viols.append((h, step, bad[0]))
                if len(viols) > 300:
                    frontier.clear()
                    break
                continue
            refstates.add(c[0])
            c = key(c)
            outcomes.add(c)
            if c not in seen:
                seen[c] = h + [step]
                frontier.append(h + [step])
                if use_fp:
                    common.fp_guard(len(seen), len(refstates))
    deepest = max(seen.values(), key=len)
    return dict(name=name, NT=NT, NL=NL, sub=sub_types, rich=rich, kind=kind,
                states=len(seen), transitions=trans, maxdepth=maxdepth,
                viols=viols, ops=len(alpha), sample=deepest)


def raw_worker(task):
    """all raw (un)subscribe sequences to a depth without state merging, each
    followed by probe fires: catches history-dependent behaviour that the
    canonical state (ordered subscriber tuples) cannot see, and validates that
    canonicalisation"""
    first, depth, NL, kind = task
    World = make_world(NL, kind)
    base = [o for o, sc in alphabet(2, NL, [0, 1], False) if not sc
            and o[0] in ("add", "rem", "ra")]
    n = 0
    viols = []
    for rest in itertools.product(base, repeat=depth - 1):
        seq = [(first, {})] + [(o, {}) for o in rest]
        n += 1
        bad, _ = check_transition(World, 2, seq[:-1], seq[-1])
        if bad:
            viols.append((seq[:-1], seq[-1], bad[0]))
            if len(viols) > 50:
                break
    return n, viols, NL, kind


def many_listeners(N):
    """N subscribers on one type (N far beyond the BFS): every removal form,
    re-subscription in both orders, every single position, duplicates and
    listeners that unsubscribe themselves while being notified"""
    World = make_world(N)
    NT = 2
    add_all = [(("add", 0, l), {}) for l in range(N)]
    fire = (("fire", 0, "x"), {})
    hists = [add_all + [fire], add_all + add_all + [fire]]
    forms = [[(("ra", None, None), {})], [(("ra", 0, None), {})],
             [(("rem", 0, l), {}) for l in range(N)],
             [(("rem", 0, l), {}) for l in reversed(range(N))],
             [(("ra", None, l), {}) for l in range(N)],
             [(("ra", 0, l), {}) for l in range(N)]]
    for f in forms:
        for order in (list(range(N)), list(reversed(range(N)))):
            again = [(("add", 0, l), {}) for l in order]
            hists.append(add_all + f + [fire] + again + [fire])
            hists.append(add_all + f + again + again + [fire])
    for j in range(N):
        for rm in (("rem", 0, j), ("ra", None, j), ("ra", 0, j)):
            hists.append(add_all + [(rm, {}), fire, (("add", 0, j), {}),
                                    fire, (("add", 1, j), {}),
                                    (("fire", 1, "y"), {})])
        # listener j leaves / brings in the last one / fires while notified
        for act in (("rem", 0, j), ("rem", 0, N - 1), ("ra", 0, None),
                    ("fire", 1, "n")):
            hists.append(add_all + [(("add", 1, (j + 1) % N), {}),
                                    (("fire", 0, "x"), {j: act}), fire])
    n = 0
    viols = []
    for h in hists:
        for i, (op, sc) in enumerate(h):
            if op[0] != "fire":
                continue
            n += 1
            bad, _ = check_transition(World, NT, h[:i], h[i])
            if bad:
                if len(viols) < 10:
                    viols.append((h[:i], h[i], bad[0]))
                break
    return N, n, viols


# ---------------------------------------------------------------- payloads
def payload_table():
    from pydsol.core.pubsub import (EventType, Event, TimedEvent,
                                    EventProducer, EventListener, EventError)
    decls = [None, {}, {"a": int}, {"a": int, "b": str}, {"x": float},
             {"a": bool}, {"tag": object, "count": int}, {"n": type(None)},
             {"a": object}, {"a": object, "b": object}]
    import collections as _c

    class Lenient(dict):
        def __missing__(self, key):
            return 7
    payloads = [_c.defaultdict(int, {"c": 3}), _c.defaultdict(str, {"a": 1, "x": "q"}),
                _c.defaultdict(int, {"b": "t", "z": 0}), Lenient({"q": 1}),
                _c.OrderedDict([("a", 1)]), _c.Counter({"a": 2}),
                {1: "a", "a": 1}, {None: 1, "a": 2}, {("t",): 1, "a": 1, 2: 0},
                {b"a": 1, "a": 1},
                None, "abc", 5, [1], (1, 2), {}, {"a": 1}, {"a": "s"},
                {"a": 1, "b": "t"}, {"a": 1, "b": 2}, {"a": 1, "c": "t"},
                {"a": 1, "b": "t", "c": 0}, {"a": None}, {"x": 1.5},
                {"x": 1}, {"a": True}, {"b": "t"}, {"a": 1.0},
                {"count": 1, "zzz": 2}, {"tag": "t", "count": 1},
                {"tag": None, "count": 1}, {"n": None}, {"m": None},
                {"zzz": 0}, {"b": 0, "zzz": 1}, {"a": 0, "zzz": 1}]
    stamps = [0, 2.5, -1, "now", None, [1]]
    ets = [EventType("C08_P%d_%d" % (i, id(decls) % 997), d)
           for i, d in enumerate(decls)]

    class Sink(EventListener):
        def __init__(self):
            self.got = []

        def notify(self, e):
            self.got.append(e)

    def valid(decl, pl, check):
        if decl is None:
            return True
        if not isinstance(pl, dict):
            return False
        if not check:
            return True
        if set(pl.keys()) != set(decl.keys()):
            return False
        return all(isinstance(pl[k], decl[k]) for k in decl)

    def has_none(pl):
        return isinstance(pl, dict) and any(v is None for v in pl.values())

    n = 0
    bad = []
    for et, decl in zip(ets, decls):
        for pl in payloads:
            for check in (True, False):
                ok = valid(decl, pl, check)
                for path in ("Event", "TimedEvent", "fire", "fire_timed"):
                    n += 1
                    sink = Sink()
                    prod = EventProducer()
                    prod.add_listener(et, sink)
                    try:
                        if path == "Event":
                            ev = Event(et, pl, check)
                        elif path == "TimedEvent":
                            ev = TimedEvent(1.5, et, pl, check)
                        elif path == "fire":
                            prod.fire(et, pl, check)
                            ev = sink.got[0]
                        else:
                            prod.fire_timed(1.5, et, pl, check)
                            ev = sink.got[0]
                        made = True
                    except EventError:
                        made = False
                    except Exception as ex:  # noqa
                        made = "raised " + type(ex).__name__
                    keys_before = list(pl.keys()) if isinstance(pl, dict) \
                        else None
                    case = (repr(decl), repr(pl), check, path)
                    if made not in (True, False):
                        bad.append(("refusal-with-another-exception", made)
                                   + case)
                    if made is True and not ok:
                        bad.append(("malformed-event-created",) + case)
                    elif made is not True and ok and not has_none(pl):
                        bad.append(("valid-event-refused", made) + case)
                    elif made is True:
                        if ev.content is not pl or ev.event_type is not et:
                            bad.append(("content-changed",) + case)
                        if path in ("TimedEvent", "fire_timed") and \
                                ev.timestamp != 1.5:
                            bad.append(("timestamp",) + case)
                        if path in ("fire", "fire_timed") and \
                                len(sink.got) != 1:
                            bad.append(("delivery-count",) + case)
                    if made is not True and sink.got:
                        bad.append(("delivered-refused-event",) + case)
                    if keys_before is not None and \
                            list(pl.keys()) != keys_before:
                        bad.append(("payload-altered-by-the-check",) + case)
                        for k in list(pl.keys()):
                            if k not in keys_before:
                                del pl[k]
    # the same payload object again after it was changed in place: every
    # event is judged on what the payload holds when the event is made
    def attempt(path, et, pl):
        sink = Sink()
        prod = EventProducer()
        prod.add_listener(et, sink)
        try:
            if path == "Event":
                Event(et, pl, True)
            elif path == "TimedEvent":
                TimedEvent(1.5, et, pl, True)
            elif path == "fire":
                prod.fire(et, pl, True)
            else:
                prod.fire_timed(1.5, et, pl, True)
            return True, len(sink.got)
        except EventError:
            return False, len(sink.got)
        except Exception as ex:  # noqa
            return "raised " + type(ex).__name__, len(sink.got)
    GOOD = {2: {"a": 1}, 3: {"a": 1, "b": "t"}, 4: {"x": 1.5}, 5: {"a": True}}
    EDITS = [("wrong-type", lambda d: d.__setitem__(sorted(d)[0], [0])),
             ("deleted-key", lambda d: d.pop(sorted(d)[0])),
             ("extra-key", lambda d: d.__setitem__("zz", 1)),
             ("emptied", lambda d: d.clear())]
    for i, good in GOOD.items():
        for path in ("Event", "TimedEvent", "fire", "fire_timed"):
            for first_path in (path, "fire"):
                for ename, edit in EDITS:
                    n += 1
                    pl = dict(good)
                    r1 = attempt(first_path, ets[i], pl)
                    edit(pl)
                    r2 = attempt(path, ets[i], pl)
                    pl.clear()
                    pl.update(good)
                    r3 = attempt(path, ets[i], pl)
                    case = (repr(decls[i]), repr(good), ename, first_path,
                            path)
                    if r1[0] is not True or r3[0] is not True:
                        bad.append(("valid-event-refused-around-an-edit",
                                    r1, r3) + case)
                    if r2[0] is not False or r2[1] != 0:
                        bad.append(("payload-edited-in-place-accepted-again",
                                    r2) + case)
    # timestamps
    for ts in stamps:
        for path in ("TimedEvent", "fire_timed"):
            n += 1
            ok = isinstance(ts, (int, float))
            sink = Sink()
            prod = EventProducer()
            prod.add_listener(ets[0], sink)
            try:
                if path == "TimedEvent":
                    ev = TimedEvent(ts, ets[0], "c")
                else:
                    prod.fire_timed(ts, ets[0], "c")
                    ev = sink.got[0]
                made = True
            except EventError:
                made = False
            except Exception as ex:  # noqa
                made = "raised " + type(ex).__name__
            if made is True and (not ok or ev.timestamp != ts
                                 or type(ev.timestamp) is not type(ts)):
                bad.append(("timestamp-accepted-or-changed", repr(ts), path))
            if made is not True and ok:
                bad.append(("timestamp-refused", repr(ts), path, made))
    # wrong argument types are refused
    from pydsol.core.pubsub import EventProducer as EP
    p = EP()
    for f in (lambda: p.add_listener("x", Sink()),
              lambda: p.add_listener(ets[0], "l"),
              lambda: p.remove_listener("x", Sink()),
              lambda: p.fire("x", 1), lambda: p.fire_event("e"),
              lambda: p.fire_timed_event(Event(ets[0], 1))):
        n += 1
        try:
            f()
            bad.append(("ill-typed-call-accepted",))
        except EventError:
            pass
        except Exception as ex:  # noqa
            bad.append(("ill-typed-call-raised", type(ex).__name__))
    return n, bad


def run(ctx):
    quick = ctx.tier == "quick"
    tasks = [("2 types x 3 listeners", 2, 3, [0, 1], False),
             ("2 same-named types declared in different places x 3 "
              "listeners", 2, 3, [0, 1], False, "samename"),
             ("1 subscribed type x 5 listeners (+1 type for nested fires)",
              2, 5, [0], False),
             ("2 types x 3 listeners of which two compare equal", 2, 3,
              [0, 1], False, "twins"),
             ("2 types x 3 listeners that are empty containers (falsy)", 2,
              3, [0, 1], False, "falsy")]
    if not quick:
        tasks += [("2 types x 3 listeners, two scripted listeners",
                   2, 3, [0, 1], True),
                  ("1 subscribed type x 6 listeners", 2, 6, [0], False),
                  ("2 types x 4 listeners", 2, 4, [0, 1], False)]
    states = trans = 0
    for r in common.pimap(bfs, tasks):
        states += r["states"]
        trans += r["transitions"]
        if r.get("fp_fallback"):
            ctx.assumptions.append(
                "bfs %s: the picture of the real producer is not canonical "
                "(%s); states merged on the reference state alone" % (
                    r["name"], r["fp_fallback"]))
        ctx.part("bfs " + r["name"], states=r["states"],
                 transitions=r["transitions"], ops=r["ops"],
                 maxdepth=r["maxdepth"], violations=len(r["viols"]))
        ctx.sample({"config": r["name"], "deepest_history": r["sample"]},
                   limit=3)
        for h, step, b in r["viols"]:
            rep = {"NT": r["NT"], "NL": r["NL"], "hist": h, "step": step,
                   "kind": r["kind"]}
            ctx.violation("C08:%s:%s" % (b[0], step[0][0]),
                          "producer (%s): after %s, step %s: %s" % (
                              r["name"], h, step, b), rep, rank=len(h))
    depth = 4 if quick else 5
    base = [o for o, sc in alphabet(2, 3, [0, 1], False) if not sc
            and o[0] in ("add", "rem", "ra")]
    nraw = 0
    for n, viols, NL, kind in common.pimap(
            raw_worker, [(o, depth, 3, "distinct") for o in base]):
        nraw += n
        for h, step, b in viols:
            rep = {"NT": 2, "NL": NL, "hist": h, "step": step, "kind": kind}
            ctx.violation("C08:raw:%s:%s" % (b[0], step[0][0]),
                          "producer, raw history %s, step %s: %s" % (
                              h, step, b), rep, rank=len(h))
    ctx.part("raw (un)subscribe sequences without state merging",
             sequences=nraw, depth=depth)
    trans += nraw
    Ns = list(range(1, 25)) + [32, 33, 40] if quick else list(range(1, 66))
    nmany = 0
    for N, n_, viols in common.pimap(many_listeners, list(reversed(Ns))):
        nmany += n_
        for h, step, b in viols:
            rep = {"NT": 2, "NL": N, "hist": h, "step": step,
                   "kind": "distinct"}
            ctx.violation("C08:many:%s:%s" % (b[0], step[0][0]),
                          "producer with %d listeners: after %s, step %s: %s"
                          % (N, [o for o, s_ in h][-6:], step,
                             str(b)[:300]), rep, rank=N)
    ctx.part("many subscribers on one type, N in %s..%s: every removal form, "
             "re-subscription in both orders, every single position, "
             "duplicates, self-unsubscription during notify" % (Ns[0],
                                                                 Ns[-1]),
             fires_checked=nmany)
    trans += nmany
    n, bad = payload_table()
    ctx.part("payload/metadata/timestamp table", cases=n,
             violations=len(bad))
    for b in bad:
        ctx.violation("C08:payload:%s" % b[0], "event creation: %s" % (b,),
                      {"payload_case": list(b)})
    ctx.coverage.update(
        states=states, transitions=trans,
        traces_validated_against_impl=trans, payload_cases=n,
        explanation="states = ordered subscriber tuples per event type "
        "(reference), explored to the fixed point; each transition replays "
        "the shortest history reaching the state on a fresh real "
        "EventProducer, applies one op (with a re-entrancy script: "
        "unsubscribe self / a later listener, subscribe another, nested fire "
        "of the same/other type, nested timed fire, remove_all forms) and "
        "compares the per-listener delivery log, has_listeners() and probe "
        "fires of every type with the snapshot-at-fire reference")
    ctx.assumptions += [
        "dict key order of the producer's internal map is unobservable",
        "a declared key whose value is None is refused by the library; only "
        "'created => well-formed' is demanded there"]


def _tup(x):
    if isinstance(x, list):
        return tuple(_tup(i) for i in x)
    return x


def replay(data):
    if "payload_case" in data:
        n, bad = payload_table()
        return bad[:3] or None
    World = make_world(data["NL"], data.get("kind", "distinct"))
    hist = [(_tup(op), {int(k): _tup(v) for k, v in sc.items()})
            for op, sc in data["hist"]]
    op, sc = data["step"]
    step = (_tup(op), {int(k): _tup(v) for k, v in sc.items()})
    bad, _ = check_transition(World, data["NT"], hist, step)
    return bad or None
