"""C01 - the event list is a faithful priority queue.

Explicit-state search over *heap layouts* of the real EventListHeap: every
reachable layout x every operation, against a sorted-list reference, run to the
fixed point for each pool of colliding events.  See DESIGN.md section C01.
"""
import collections
import itertools

from vlib import common

LEVEL = "model_checking"


# ---------------------------------------------------------------- pools
def _mk_time(kind, t):
    if kind == "int":
        return int(t)
    if kind == "float":
        return float(t)
    if kind == "mixed":            # alternate representation of equal times
        return t
    if kind == "duration":
        from pydsol.core.units import Duration
        return Duration(float(t), "s")
    raise ValueError(kind)


# (time, priority) per pool index; built to collide: equal times with different
# priorities, equal time *and* priority (id tie-break), late-created early
# events.  'mixed' uses 1 / 1.0 / 0 / 0.0 spellings of equal times.
BASE = [(0, 5), (1, 5), (0, 5), (1, 1), (1, 10), (2, 5), (0, 7), (2, 5), (1, 5),
        (0, 1)]
MIXED_T = [0, 1.0, 0.0, 1, 1.0, 2, 0, 2.0, 1, 0.0]


# times a tolerance-based comparison would wrongly merge; priorities run
# opposite to the time order
NEAR = [(0.3, 1), (0.1 + 0.2, 9), (1.0, 1), (1.0 + 6e-13, 5), (1.0 + 1.2e-12, 9),
        (0.3, 5), (1.0, 5), (1.0 - 1e-16, 1), (0.1 + 0.2, 1), (2.0, 5)]


B53 = 2 ** 53
BIG = [(B53 + 1, 9), (B53, 1), (B53 + 1, 5), (B53, 5), (B53 + 3, 10),
       (B53 + 2, 1), (B53, 7), (B53 + 1, 1), (B53 + 2, 5), (B53 + 3, 5)]


# priorities beyond the named constants MIN_PRIORITY..MAX_PRIORITY (any int is
# accepted): ties must still go to the higher priority
WIDE = [(0, 11), (1, 3), (0, False), (1, 0), (1, -1), (1, 12), (0, 2), (2, 11),
        (1, 11), (0, 0)]


class _T:
    def h(self):
        pass


def make_pool(kind, K, order, rot):
    """returns list of SimEvent by pool index; `order` is the creation order
    (ids increase in creation order, which need not be index order)."""
    from pydsol.core.simevent import SimEvent
    tgt = _T()
    spec = BASE[rot % len(BASE):] + BASE[:rot % len(BASE)]
    mixed = MIXED_T[rot % len(BASE):] + MIXED_T[:rot % len(BASE)]
    evs = [None] * K
    idx = list(range(K))
    if order == "reversed":
        idx.reverse()
    elif order == "interleaved":
        idx = idx[1::2] + idx[0::2]
    near = NEAR[rot % len(NEAR):] + NEAR[:rot % len(NEAR)]
    big = BIG[rot % len(BIG):] + BIG[:rot % len(BIG)]

    class SubEvent(SimEvent):
        """a user subclass of SimEvent: shares the id sequence"""

    class SubSubEvent(SubEvent):
        pass
    rank = 0
    for i in idx:
        t, p = spec[i]
        if kind == "mixed":
            tv = mixed[i]
        elif kind == "bigint":
            # tick / epoch-nanosecond clocks: distinct ints that collapse to
            # one double, later times carrying the higher priority
            tv, p = big[i]
        elif kind == "nearfloat":
            tv, p = near[i]
        elif kind == "nearduration":
            tv, p = near[i]
            tv = _mk_time("duration", tv)
        elif kind == "subclasses":
            tv = _mk_time("float", t)
        elif kind == "wideprio":
            t, p = (WIDE[rot % len(WIDE):] + WIDE[:rot % len(WIDE)])[i]
            tv = _mk_time("float", t)
        else:
            tv = _mk_time(kind, t)
        cls = SimEvent
        if kind == "subclasses":
            cls = (SimEvent, SubEvent, SubSubEvent)[i % 3]
        evs[i] = cls(tv, tgt, "h", p)
        evs[i]._verif_prio = p
        evs[i]._verif_rank = rank
        rank += 1
    return evs


def ref_key(e):
    # the time itself, not float(time): ints beyond 2^53 must stay exact
    # (Python compares int/float exactly; Durations compare on SI values);
    # third key = creation order recorded by make_pool (the property says
    # "earlier creation"; that ids follow creation order is checked apart)
    # (the priority the event was given, not the one it reports)
    return (e.time, -int(getattr(e, "_verif_prio", e.priority)),
            getattr(e, "_verif_rank", e.id))


# ---------------------------------------------------------------- ops
def ops_for(K, present):
    """state-changing ops enabled in a state with `present` set"""
    for i in range(K):
        if i not in present:
            yield ("add", i)
    for i in range(K):
        yield ("remove", i)
    yield ("pop",)
    yield ("clear",)


def apply_real(el, pool, op):
    k = op[0]
    if k == "add":
        return el.add(pool[op[1]])
    if k == "remove":
        return el.remove(pool[op[1]])
    if k == "pop":
        e = el.pop_first()
        return None if e is None else _idx(pool, e)
    if k == "peek":
        e = el.peek_first()
        return None if e is None else _idx(pool, e)
    if k == "contains":
        return el.contains(pool[op[1]])
    if k == "size":
        return el.size()
    if k == "is_empty":
        return el.is_empty()
    if k == "clear":
        return el.clear()
    raise ValueError(op)


def _idx(pool, e):
    for i, x in enumerate(pool):
        if x is e:
            return i
    return ("foreign", repr(e))


def apply_ref(ref, pool, op):
    """ref: list of pool indices kept sorted by key"""
    k = op[0]
    if k == "add":
        ref.append(op[1])
        ref.sort(key=lambda i: ref_key(pool[i]))
        return None
    if k == "remove":
        if op[1] in ref:
            ref.remove(op[1])
            return True
        return False
    if k == "pop":
        return ref.pop(0) if ref else None
    if k == "peek":
        return ref[0] if ref else None
    if k == "contains":
        return op[1] in ref
    if k == "size":
        return len(ref)
    if k == "is_empty":
        return not ref
    if k == "clear":
        del ref[:]
        return None


def build(pool, hist, with_queries=True):
    """replay the history on a fresh list; like a real user the replay looks
    at the list (peek / size / contains) after every operation, so that a
    cached answer that is not invalidated shows up later"""
    from pydsol.core.eventlist import EventListHeap
    el = EventListHeap()
    ref = []
    # a second event list in the same process, used in between (another
    # simulator): the two lists have nothing to do with each other
    other = EventListHeap()
    oref = []
    K = len(pool)
    for j in (K - 1, 0):
        apply_real(other, pool, ("add", j))
        apply_ref(oref, pool, ("add", j))
    el._verif_other = (other, oref)
    for n, op in enumerate(hist):
        try:
            apply_real(el, pool, op)
        except Exception:  # noqa  (reported when this op was the last one)
            pass
        apply_ref(ref, pool, op)
        if n % 3 == 0:
            oop = ("add", (n // 3 + 1) % K)
            if oop[1] in oref:
                oop = ("remove", oop[1])
        elif n % 3 == 1:
            oop = ("pop",)
        else:
            oop = ("clear",) if n % 2 else ("add", n % K)
            if oop[0] == "add" and oop[1] in oref:
                oop = ("peek",)
        try:
            apply_real(other, pool, oop)
        except Exception:  # noqa  (shows in the final comparison)
            pass
        apply_ref(oref, pool, oop)
        if with_queries:
            try:
                el.peek_first()
                el.size()
                el.is_empty()
                el.contains(pool[0])
                el.contains(pool[-1])
            except Exception:  # noqa  (reported by the final comparison)
                pass
    return el, ref


USE_EXTRA = [True]      # cleared when the extra attributes are not canonical


def canon(el, pool, hist):
    """layout of the internal array as pool indices; falls back to the raw
    history when the attribute is not a list of tuples ending in the event"""
    arr = getattr(el, "_event_list", None)
    try:
        out = []
        for item in arr:
            e = item[-1] if isinstance(item, tuple) else item
            out.append(_idx(pool, e))
        # anything else the list object remembers (a cached head, a memo of
        # the latest entry, an index) is part of the state: two histories
        # are merged only if the whole object looks the same
        extra = tuple(sorted(
            (k, _norm(v, pool)) for k, v in vars(el).items()
            if k not in ("_event_list", "_verif_other")))
        if extra and USE_EXTRA[0]:
            return ("layout", tuple(out), extra)
        return ("layout", tuple(out))
    except Exception:
        return ("hist", tuple(hist))


def _norm(v, pool, depth=0):
    for i, x in enumerate(pool):
        if x is v:
            return ("ev", i)
    if v is None or isinstance(v, (bool, int, float, str)):
        return repr(v)
    if depth > 4:
        return type(v).__name__
    if isinstance(v, (tuple, list, collections.deque)):
        return (type(v).__name__,) + tuple(_norm(x, pool, depth + 1)
                                           for x in v)
    if isinstance(v, (set, frozenset)):
        return (type(v).__name__,) + tuple(sorted(
            repr(_norm(x, pool, depth + 1)) for x in v))
    if isinstance(v, dict):
        return ("dict",) + tuple(sorted(
            repr((_norm(k, pool, depth + 1), _norm(x, pool, depth + 1)))
            for k, x in v.items()))
    if hasattr(v, "si") and hasattr(v, "unit"):
        return repr(v)
    return type(v).__name__


def observe_all(el, ref, pool, K):
    """query ops: every one must agree with the reference"""
    bad = []
    for op in [("peek",), ("size",), ("is_empty",)] + \
            [("contains", i) for i in range(K)]:
        try:
            got = apply_real(el, pool, op)
        except Exception as ex:  # noqa
            got = ("raised", type(ex).__name__)
        exp = apply_ref(ref, pool, op)
        if got != exp:
            bad.append((op, got, exp))
    return bad


def drain(el, pool):
    out = []
    guard = 0
    while not el.is_empty() and guard < 100:
        out.append(_idx(pool, el.pop_first()))
        guard += 1
    return out


def check_history(pool, K, hist, op):
    """replay hist, apply op, compare everything. returns (violations, canon,
    present) where violations is a list of (kind, detail)"""
    el, ref = build(pool, hist)
    bad = []
    try:
        got = apply_real(el, pool, op)
    except Exception as ex:  # noqa
        got = ("raised", type(ex).__name__, str(ex)[:80])
    exp = apply_ref(ref, pool, op)
    if op[0] in ("remove", "pop") and got != exp:
        bad.append(("return", op, got, exp))
    c = canon(el, pool, hist + (op,))
    for b in observe_all(el, ref, pool, K):
        bad.append(("query",) + b)
    # queries must not mutate
    if canon(el, pool, hist + (op,)) != c:
        bad.append(("query-mutates", op))
    present = frozenset(ref)
    d = drain(el, pool)
    if d != ref:
        bad.append(("drain", d, list(ref)))
    other, oref = el._verif_other
    for b in observe_all(other, oref, pool, K):
        bad.append(("second-list-query",) + b)
    d = drain(other, pool)
    if d != oref:
        bad.append(("second-list-drain", d, list(oref)))
    return bad, c, present


def explore_pool(task):
    USE_EXTRA[0] = True
    try:
        return explore_pool_(task)
    except common.FingerprintTooFine as ex:
        # (attributes that differ from run to run, e.g. an index keyed by
        # id(): the layout of the heap array alone is the state)
        USE_EXTRA[0] = False
        try:
            r = explore_pool_(task)
        finally:
            USE_EXTRA[0] = True
        r["fp_fallback"] = str(ex)
        return r


def explore_pool_(task):
    kind, K, order, rot, max_states = task
    pool = make_pool(kind, K, order, rot)
    init_c = ("layout", ())
    seen = {init_c: ()}
    layouts = set()
    frontier = collections.deque([((), frozenset())])
    transitions = 0
    viols = []
    outcomes = set()
    maxdepth = 0
    capped = False
    # if the internal array is not introspectable the state is the history
    # itself: bound the depth (reported as a cap)
    el, ref = build(pool, (("add", 0),))
    fallback_depth = 4 if canon(el, pool, ())[0] == "hist" else None
    # initial state queries
    el, ref = build(pool, ())
    for b in observe_all(el, ref, pool, K):
        viols.append(("query@init", (), b))
    while frontier:
        hist, present = frontier.popleft()
        maxdepth = max(maxdepth, len(hist))
        if fallback_depth is not None and len(hist) >= fallback_depth:
            capped = True
            continue
        for op in ops_for(K, present):
            transitions += 1
            bad, c, pres2 = check_history(pool, K, hist, op)
            outcomes.add((op[0], c))
            if bad:
                viols.append((hist, op, bad[0]))
                if len(viols) > 400:
                    frontier.clear()
                    break
            if c not in seen:
                if max_states and len(seen) >= max_states:
                    capped = True
                    continue
                seen[c] = hist + (op,)
                frontier.append((hist + (op,), pres2))
                if len(c) > 2:
                    layouts.add(c[1])
                    common.fp_guard(len(seen), len(layouts))
    descr = [(repr(e.time), e.priority, e.id) for e in pool]
    return dict(kind=kind, K=K, order=order, rot=rot, states=len(seen),
                transitions=transitions, maxdepth=maxdepth, viols=viols,
                capped=capped, pool=descr, outcomes=len(outcomes),
                sample=seen[max(seen, key=lambda k: len(seen[k]))])


# ---------------------------------------------------------------- comparisons
def check_order(task):
    kind, K, order, rot = task
    pool = make_pool(kind, K, order, rot)
    import operator
    bad = []
    n = 0
    OPS = [("<", operator.lt), ("<=", operator.le), (">", operator.gt),
           (">=", operator.ge), ("==", operator.eq), ("!=", operator.ne)]
    for i, j in itertools.product(range(K), repeat=2):
        a, b = pool[i], pool[j]
        ka, kb = ref_key(a), ref_key(b)
        for name, f in OPS:
            n += 1
            try:
                got = f(a, b)
            except Exception as ex:  # noqa
                got = ("raised", type(ex).__name__)
            exp = f(ka, kb)
            if got is not exp:
                bad.append(("cmp", i, name, j, got, exp))
    # ids are unique and follow creation order
    by_rank = sorted(pool, key=lambda e: e._verif_rank)
    ids = [e.id for e in by_rank]
    if any(a >= b for a, b in zip(ids, ids[1:])):
        bad.append(("ids-do-not-follow-creation-order", ids))
    # trichotomy / transitivity on the operators themselves
    for i, j in itertools.product(range(K), repeat=2):
        a, b = pool[i], pool[j]
        n += 1
        if (a < b) + (a == b) + (a > b) != 1:
            bad.append(("trichotomy", i, j))
    for i, j, k in itertools.product(range(K), repeat=3):
        a, b, c = pool[i], pool[j], pool[k]
        n += 1
        if a < b and b < c and not a < c:
            bad.append(("transitivity", i, j, k))
    return dict(kind=kind, n=n, bad=bad[:20], nbad=len(bad),
                pool=[(repr(e.time), e.priority, e.id) for e in pool])


# ---------------------------------------------------------------- raw depth
def raw_sequences(task):
    """all raw op sequences (no dedup) to a small depth: validates canon
    (equal canon => equal observable future) and catches history effects a
    layout abstraction could hide"""
    kind, K, depth = task
    pool = make_pool(kind, K, "index", 0)
    n = 0
    viols = []
    by_canon = {}

    def rec(hist, present):
        nonlocal n
        if len(hist) >= depth:
            return
        for op in ops_for(K, present):
            n += 1
            bad, c, pres2 = check_history(pool, K, hist, op)
            if bad and len(viols) < 50:
                viols.append((hist, op, bad[0]))
            h2 = hist + (op,)
            # differential: same canon => same drain order
            el, ref = build(pool, h2)
            d = tuple(drain(el, pool))
            prev = by_canon.setdefault(c, d)
            if prev != d and len(viols) < 50:
                viols.append((h2, ("canon-merge",), (c, prev, d)))
            rec(h2, pres2)
    rec((), frozenset())
    return dict(kind=kind, K=K, depth=depth, n=n, viols=viols,
                canon_classes=len(by_canon))


# ---------------------------------------------------------------- large lists
# Heaps of 4..6 levels: thresholds (a fast path that switches on beyond n
# entries, a scan limit) and sift paths longer than the K<=9 pools reach.
LARGE_PRIO = (5, 1, 5, 10, 5, 7)


def make_large_pool(kind, N):
    """N events with many ties on time and on (time, priority), created in
    index order, plus three extra events X0 (before all), X1 (ties with the
    middle class, created last) and X2 (after all)"""
    from pydsol.core.simevent import SimEvent
    tgt = _T()
    spec = [((i * 5) % 7, LARGE_PRIO[i % 6]) for i in range(N)]
    spec += [(-1, 5), (3, 5), (8, 5)]
    pool = []
    for rank, (t, pr) in enumerate(spec):
        e = SimEvent(_mk_time(kind, t), tgt, "h", pr)
        e._verif_prio = pr
        e._verif_rank = rank
        pool.append(e)
    return pool


def large_fills(N):
    out = {"index": list(range(N))}
    # sorted orders are filled in by the caller (need the pool)
    for s in (3, 7, 11):
        import math
        if N > s and math.gcd(s, N) == 1:
            out["stride%d" % s] = [(i * s) % N for i in range(N)]
    oi = []
    lo, hi = 0, N - 1
    while lo <= hi:
        oi.append(lo)
        if hi != lo:
            oi.append(hi)
        lo += 1
        hi -= 1
    out["outside-in"] = oi
    return out


def large_script(pool, N, fill, script, probes=()):
    """fresh list, add the events of `fill` in that order, apply `script`
    (ops on pool indices; N, N+1, N+2 are the extra events), compare return
    values, the probes (contains) and the whole drain order"""
    from pydsol.core.eventlist import EventListHeap
    el = EventListHeap()
    ref = []
    bad = []
    for i in fill:
        el.add(pool[i])
        ref.append(i)
    ref.sort(key=lambda i: ref_key(pool[i]))
    for op in script:
        try:
            got = apply_real(el, pool, op)
        except Exception as ex:  # noqa
            got = ("raised", type(ex).__name__, str(ex)[:60])
        exp = apply_ref(ref, pool, op)
        if op[0] != "add" and got != exp:
            bad.append(("return", op, got, exp))
    for op in [("size",), ("peek",)] + [("contains", i) for i in probes]:
        try:
            got = apply_real(el, pool, op)
        except Exception as ex:  # noqa
            got = ("raised", type(ex).__name__, str(ex)[:60])
        exp = apply_ref(ref, pool, op)
        if got != exp:
            bad.append(("query", op, got, exp))
    try:
        d = drain(el, pool)
    except Exception as ex:  # noqa
        d = ("raised", type(ex).__name__, str(ex)[:60])
    if d != ref:
        bad.append(("drain", d if not isinstance(d, list) else d[:N + 3],
                    list(ref)))
    return bad


def large_worker(task):
    kind, N, pairs = task
    pool = make_large_pool(kind, N)
    fills = large_fills(N)
    asc = sorted(range(N), key=lambda i: ref_key(pool[i]))
    fills["ascending"] = asc
    fills["descending"] = asc[::-1]
    n = 0
    viols = []
    outcomes = set()

    def go(fname, fill, script, probes):
        nonlocal n
        n += 1
        bad = large_script(pool, N, fill, script, probes)
        if bad and len(viols) < 30:
            viols.append((fname, list(fill), [list(o) for o in script],
                          list(probes), bad[0]))
        return bad

    X = (N, N + 1, N + 2)
    for fname, fill in sorted(fills.items()):
        # every prefix of the fill (the list while it grows)
        for k in range(1, N + 1):
            pre = fill[:k]
            probes = (pre[-1], pre[0], fill[k % N] if k < N else N)
            if k == N:
                probes = tuple(range(N + 3))
            go(fname, pre, (), probes)
        # one event cancelled at every position, then one more event
        for i in range(N):
            near = (i, fill[-1], fill[0], (i + 1) % N)
            go(fname, fill, (("remove", i),), near)
            go(fname, fill, (("remove", i), ("remove", i)), near)
            for x in X:
                go(fname, fill, (("remove", i), ("add", x)), near + (x,))
                go(fname, fill, (("add", x), ("remove", i)), near + (x,))
        # growth beyond N, pops in between
        go(fname, fill, tuple(("add", x) for x in X), X)
        go(fname, fill, (("pop",), ("add", X[1]), ("pop",), ("add", X[0]),
                         ("add", X[2])), X)
        if pairs:
            for i in range(N):
                for j in range(i + 1, N):
                    go(fname, fill, (("remove", i), ("remove", j),
                                     ("add", X[1])), (i, j, X[1]))
        outcomes.add(fname)
    return dict(kind=kind, N=N, n=n, viols=viols, fills=len(fills))


def all_orders_worker(task):
    """every insertion order of N tied events (N! fills), whole drain"""
    kind, N, first = task
    pool = make_large_pool(kind, N)
    rest = [i for i in range(N) if i != first]
    n = 0
    viols = []
    for perm in itertools.permutations(rest):
        fill = (first,) + perm
        n += 1
        bad = large_script(pool, N, fill, (("add", N + 1),), (N + 1, fill[-1]))
        if bad and len(viols) < 10:
            viols.append(("all-orders", list(fill), [["add", N + 1]],
                          [N + 1, fill[-1]], bad[0]))
    return dict(kind=kind, N=N, n=n, viols=viols)


def sig_of(kind, bad):
    return "C01:%s:%s" % (kind, bad[0])


def run(ctx):
    quick = ctx.tier == "quick"
    K = 7 if quick else 8
    kinds = ["int", "float", "mixed", "duration", "nearfloat",
             "nearduration", "bigint", "subclasses", "wideprio"]
    orders = ["index", "reversed"] if quick else ["index", "reversed",
                                                  "interleaved"]
    rots = [0, (ctx.seed % 9) + 1] if ctx.seed else [0]
    tasks = [(k, K, o, r, 0) for k in kinds for o in orders for r in rots]
    if not quick:
        tasks += [(k, 9, "index", 0, 0) for k in kinds]
    states = trans = 0
    for r in common.pimap(explore_pool, tasks):
        states += r["states"]
        trans += r["transitions"]
        ctx.part("layout-bfs %s K=%d order=%s rot=%d" % (
            r["kind"], r["K"], r["order"], r["rot"]), states=r["states"],
            transitions=r["transitions"], maxdepth=r["maxdepth"],
            outcomes=r["outcomes"], violations=len(r["viols"]))
        ctx.sample({"pool(time,prio,id)": r["pool"],
                    "deepest_history": r["sample"]}, limit=3)
        if r["capped"]:
            ctx.cap("state cap hit in %s" % r["kind"])
        if r.get("fp_fallback") and not any("not canonical" in a_
                                            for a_ in ctx.assumptions):
            ctx.assumptions.append(
                "the extra attributes of the list object are not canonical "
                "(%s): states merged on the heap layout alone" %
                r["fp_fallback"])
        for (hist, op, bad) in r["viols"]:
            ctx.violation(sig_of(r["kind"], bad),
                          "eventlist %s pool: after history %s op %s: %s" % (
                              r["kind"], list(hist), op, bad),
                          {"mode": "history", "kind": r["kind"], "K": r["K"],
                           "order": r["order"], "rot": r["rot"],
                           "hist": list(hist), "op": op})
    ncmp = 0
    for r in common.pmap(check_order,
                         [(k, K, o, 0) for k in kinds for o in orders]):
        ncmp += r["n"]
        for b in r["bad"]:
            ctx.violation("C01:%s:order:%s" % (r["kind"], b[0]),
                          "comparison operators of SimEvent (%s pool %s): %s"
                          % (r["kind"], r["pool"], b),
                          {"mode": "order", "kind": r["kind"], "K": K,
                           "order": "index", "rot": 0})
    ctx.part("comparison operators", evaluations=ncmp)
    raw_n = 0
    depth = 5 if quick else 6
    for r in common.pmap(raw_sequences, [(k, 4, depth) for k in kinds]):
        raw_n += r["n"]
        ctx.part("raw sequences %s K=4 depth<=%d" % (r["kind"], depth),
                 sequences=r["n"], canon_classes=r["canon_classes"],
                 violations=len(r["viols"]))
        for (hist, op, bad) in r["viols"]:
            ctx.violation(sig_of(r["kind"], bad) + ":raw",
                          "eventlist %s raw history %s op %s: %s" % (
                              r["kind"], list(hist), op, bad),
                          {"mode": "history", "kind": r["kind"], "K": 4,
                           "order": "index", "rot": 0,
                           "hist": list(hist), "op": op})
    # large lists
    lkinds = ["int", "float", "duration"]
    if quick:
        sizes = [8, 9, 10, 12, 15, 16, 17, 18, 23, 24, 25, 26, 31, 32, 33,
                 34, 40]
        pair_sizes = {9, 17, 18, 25, 26, 33, 34}
    else:
        sizes = list(range(8, 49)) + [63, 64, 65, 66]
        pair_sizes = set(sizes)
    ltasks = [(k, N, N in pair_sizes) for N in sizes for k in lkinds]
    ln = 0
    for r in common.pimap(large_worker, ltasks):
        ln += r["n"]
        for (fname, fill, script, probes, bad) in r["viols"]:
            ctx.violation("C01:large:%s:%s" % (r["kind"], bad[0]),
                          "eventlist with %d %s-time events added in order "
                          "'%s', then %s: %s" % (r["N"], r["kind"], fname,
                                                 script, bad),
                          {"mode": "large", "kind": r["kind"], "N": r["N"],
                           "fill": fill, "script": script, "probes": probes})
    ctx.part("large lists: %d sizes %d..%d x %s; every prefix of 5-8 "
             "insertion orders, every single cancellation position (+ one "
             "add before/after), every pair of positions for sizes %s" % (
                 len(sizes), sizes[0], sizes[-1], lkinds,
                 sorted(pair_sizes) if quick else "all"), executions=ln)
    NP = 8 if quick else 9
    pn = 0
    for r in common.pimap(all_orders_worker,
                          [(k, n_, f) for k in lkinds
                           for n_ in range(2, NP + 1) for f in range(n_)]):
        pn += r["n"]
        for (fname, fill, script, probes, bad) in r["viols"]:
            ctx.violation("C01:large:%s:%s:all-orders" % (r["kind"], bad[0]),
                          "eventlist: %d %s-time events added in order %s, "
                          "then %s: %s" % (r["N"], r["kind"], fill, script,
                                           bad),
                          {"mode": "large", "kind": r["kind"], "N": r["N"],
                           "fill": fill, "script": script, "probes": probes})
    ctx.part("all insertion orders of n tied events, n=2..%d" % NP,
             executions=pn)
    ctx.coverage.update(states=states, transitions=trans + raw_n,
                        traces_validated_against_impl=trans + raw_n + ln + pn,
                        large_list_executions=ln,
                        insertion_order_executions=pn,
                        comparison_evaluations=ncmp,
                        explanation="every transition is an execution of the "
                        "real EventListHeap replayed from an empty list and "
                        "compared with a sorted-list reference (return value, "
                        "all queries, full drain order)")
    ctx.assumptions += [
        "adding the same event object twice is unspecified and not explored",
        "lists of more than 9 events: fixed tie-rich event sets and 5-8 "
        "insertion orders per size (all orders only up to 8/9 events); within "
        "those every cancellation position / pair is enumerated",
        "canonical state = layout of the internal array (over-fine on purpose);"
        " validated by raw enumeration without dedup to depth %d" % depth]


def replay(data):
    if data["mode"] == "large":
        pool = make_large_pool(data["kind"], data["N"])
        return large_script(pool, data["N"], data["fill"],
                            [tuple(o) for o in data["script"]],
                            tuple(data["probes"])) or None
    if data["mode"] == "order":
        r = check_order((data["kind"], data["K"], data["order"], data["rot"]))
        return r["bad"][:3] or None
    pool = make_pool(data["kind"], data["K"], data["order"], data["rot"])
    hist = tuple(tuple(o) for o in data["hist"])
    op = tuple(data["op"])
    bad, c, _ = check_history(pool, data["K"], hist, op)
    return bad or None
