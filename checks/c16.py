"""C16 - quantity arithmetic is dimensionally sound and type safe.

Exhaustive tables: all 41 x 41 ordered pairs of quantity types for * and /
(several values and units per operand), number/quantity/SI combinations,
all 41 x 41 asSI().as_quantity() conversions, mixed-type add/sub/ordering,
same-type arithmetic, and all SI signatures with <= 3 non-zero exponents in
-3..3 in all 8 print formats.  Oracle: an independent table of SI signatures
written from the SI definitions.
"""
import itertools
import math
import operator

from vlib import common

LEVEL = "exploration"

# independent reference: exponents of (rad, sr, kg, m, s, A, K, mol, cd)
REF = {
    'Acceleration': dict(m=1, s=-2), 'Angle': dict(rad=1),
    'AngularAcceleration': dict(rad=1, s=-2),
    'AngularVelocity': dict(rad=1, s=-1), 'Area': dict(m=2),
    'Density': dict(kg=1, m=-3), 'Dimensionless': {}, 'Duration': dict(s=1),
    'ElectricalCharge': dict(s=1, A=1), 'ElectricalCurrent': dict(A=1),
    'ElectricalPotential': dict(kg=1, m=2, s=-3, A=-1),
    'ElectricalResistance': dict(kg=1, m=2, s=-3, A=-2),
    'Energy': dict(kg=1, m=2, s=-2), 'FlowMass': dict(kg=1, s=-1),
    'FlowVolume': dict(m=3, s=-1), 'Force': dict(kg=1, m=1, s=-2),
    'Frequency': dict(s=-1), 'Length': dict(m=1),
    'LinearDensity': dict(m=-1), 'Mass': dict(kg=1),
    'Momentum': dict(kg=1, m=1, s=-1), 'Power': dict(kg=1, m=2, s=-3),
    'Pressure': dict(kg=1, m=-1, s=-2), 'SolidAngle': dict(sr=1),
    'Speed': dict(m=1, s=-1), 'Temperature': dict(K=1),
    'Torque': dict(kg=1, m=2, s=-2), 'Volume': dict(m=3),
    'AbsorbedDose': dict(m=2, s=-2), 'AmountOfSubstance': dict(mol=1),
    'CatalyticActivity': dict(mol=1, s=-1),
    'ElectricalCapacitance': dict(kg=-1, m=-2, s=4, A=2),
    'ElectricalConductance': dict(kg=-1, m=-2, s=3, A=2),
    'ElectricalInductance': dict(kg=1, m=2, s=-2, A=-2),
    'EquivalentDose': dict(m=2, s=-2),
    'Illuminance': dict(cd=1, sr=1, m=-2), 'LuminousFlux': dict(cd=1, sr=1),
    'LuminousIntensity': dict(cd=1),
    'MagneticFluxDensity': dict(kg=1, s=-2, A=-1),
    'MagneticFlux': dict(kg=1, m=2, s=-2, A=-1), 'RadioActivity': dict(s=-1)}
ORDER = ['rad', 'sr', 'kg', 'm', 's', 'A', 'K', 'mol', 'cd']
VALS = [0, 1, -2.5, 1e-3, 123456.789, 3]


def rsig(name):
    return [REF[name].get(u, 0) for u in ORDER]


def sig_of(x, SI):
    if type(x) is SI:
        return list(x.sisig())
    return list(type(x).sisig())


def operands(q):
    """a few instances per class: base unit and two other units, several
    values"""
    us = list(q._units)
    picks = [None, us[0], us[-1], us[len(us) // 2]]
    out = []
    for v in VALS:
        for u in picks[:2] if v not in (1, -2.5) else picks:
            out.append((v, u))
    return out


def mk(q, v, u):
    return q(v) if u is None else q(v, u)


def pair_worker(task):
    lo, hi = task
    import pydsol.core.units as U
    SI = U.SI
    Q = U.QUANTITIES
    n = 0
    bad = []
    # unit names that several quantity classes use with different factors
    # ('rad' of Angle and of AbsorbedDose, 'A' ampere and angstrom, ...)
    homonyms = {}
    for qc in Q:
        for u_, f_ in qc._units.items():
            homonyms.setdefault(u_, []).append((qc, f_))
    homonyms = {u_: v for u_, v in homonyms.items()
                if len(set(f_ for _, f_ in v)) > 1}
    kept = None
    for a in Q[lo:hi]:
        if a.__name__ not in REF:
            bad.append(("unknown-quantity-class", a.__name__))
            continue
        if list(a.sisig()) != rsig(a.__name__) or list(SI.SIUNITS) != ORDER:
            bad.append(("declared-signature", a.__name__, list(a.sisig()),
                        rsig(a.__name__)))
        for b in Q:
            if b.__name__ not in REF:
                continue
            for (va, ua), (vb, ub) in itertools.product(
                    operands(a)[:6], operands(b)[:5]):
                x = mk(a, va, ua)
                y = mk(b, vb, ub)
                xs, ys = float(x), float(y)
                for name, op in (("*", operator.mul), ("/", operator.truediv)):
                    if name == "/" and ys == 0:
                        continue
                    n += 1
                    try:
                        r = op(x, y)
                    except Exception as ex:  # noqa
                        bad.append(("raised", a.__name__, name, b.__name__,
                                    type(ex).__name__))
                        continue
                    sgn = 1 if name == "*" else -1
                    exp = [p + sgn * q_ for p, q_ in zip(rsig(a.__name__),
                                                         rsig(b.__name__))]
                    val = op(xs, ys)
                    if not (type(r) is SI or isinstance(r, U.Quantity)):
                        bad.append(("result-type", a.__name__, name,
                                    b.__name__, type(r).__name__))
                        continue
                    got = sig_of(r, SI)
                    if got != exp:
                        bad.append(("signature", a.__name__, name, b.__name__,
                                    type(r).__name__, got, exp))
                    # an earlier result that was kept still has its own
                    # signature, value and unit text
                    if kept is not None:
                        kr, kexp, kval, kunit, kwho = kept
                        if sig_of(kr, SI) != kexp or float(kr) != kval or \
                                kr.unit != kunit:
                            bad.append(("kept-result-changed-by-a-later-"
                                        "operation", kwho, sig_of(kr, SI),
                                        kexp, (a.__name__, name,
                                               b.__name__)))
                    kept = (r, exp, float(r), r.unit,
                            (a.__name__, name, b.__name__))
                    if float(r) != val and not (math.isnan(val)):
                        bad.append(("si-value", a.__name__, name, b.__name__,
                                    float(r), val, (va, ua, vb, ub)))
                    if type(r) is SI:
                        try:
                            back = SI(1.0, r.unit)
                            if list(back.sisig()) != exp:
                                bad.append(("result-unit-text", a.__name__,
                                            name, b.__name__, r.unit, exp))
                        except Exception as ex:  # noqa
                            bad.append(("result-unit-text-raised", a.__name__,
                                        name, b.__name__,
                                        repr(getattr(r, "unit", None)),
                                        type(ex).__name__))
                    # the same operation right after a quantity of another
                    # class was made with a unit name that the result class
                    # uses too (with another factor)
                    if isinstance(r, U.Quantity):
                        for u_ in (r.unit, type(r)._baseunit):
                            for qc, f_ in homonyms.get(u_, ()):
                                if qc is type(r):
                                    continue
                                n += 1
                                try:
                                    # (first another unit, so that this
                                    # really is the latest unit looked up)
                                    other = [k_ for k_ in qc._units
                                             if k_ != u_]
                                    if other:
                                        qc(1.0, other[0])
                                    qc(3.0, u_)
                                    r2 = op(x, y)
                                except Exception as ex:  # noqa
                                    bad.append(("raised-after-homonym",
                                                a.__name__, name, b.__name__,
                                                qc.__name__, u_,
                                                type(ex).__name__))
                                    continue
                                if type(r2) is not type(r) or \
                                        float(r2) != float(r) or \
                                        r2.unit != r.unit:
                                    bad.append((
                                        "result-depends-on-the-last-unit-used",
                                        a.__name__, name, b.__name__,
                                        qc.__name__, u_, float(r2), float(r)))
                    # operands untouched
                    if float(x) != xs or float(y) != ys or \
                            sig_of(x, SI) != rsig(a.__name__) or \
                            sig_of(y, SI) != rsig(b.__name__):
                        bad.append(("operand-changed", a.__name__, name,
                                    b.__name__))
            # quantity (*,/) SI and SI (*,/) quantity with a *reused* SI
            s = mk(b, 2.0, None).asSI()
            ssig = list(s.sisig())
            for rep in range(2):
                for name, op in (("*", operator.mul), ("/", operator.truediv)):
                    for left in (True, False):
                        n += 1
                        x = mk(a, 3.0, None)
                        try:
                            r = op(x, s) if left else op(s, x)
                        except Exception as ex:  # noqa
                            bad.append(("raised-with-SI", a.__name__, name,
                                        b.__name__, left, type(ex).__name__))
                            continue
                        sgn = 1 if name == "*" else -1
                        if left:
                            exp = [p + sgn * q_ for p, q_ in zip(
                                rsig(a.__name__), rsig(b.__name__))]
                            val = op(3.0, 2.0)
                        else:
                            exp = [q_ + sgn * p for p, q_ in zip(
                                rsig(a.__name__), rsig(b.__name__))]
                            val = op(2.0, 3.0)
                        if sig_of(r, SI) != exp or float(r) != val:
                            bad.append(("signature-with-SI", a.__name__, name,
                                        b.__name__, "q.SI" if left else "SI.q",
                                        rep, sig_of(r, SI), exp))
                        if list(s.sisig()) != ssig or float(s) != 2.0:
                            bad.append(("SI-operand-changed", a.__name__,
                                        name, b.__name__, list(s.sisig()),
                                        ssig))
                            s = mk(b, 2.0, None).asSI()
            # conversion
            n += 1
            sa = mk(a, 1.5, None).asSI()
            try:
                r = sa.as_quantity(b)
                ok = True
            except ValueError:
                ok = False
            except Exception as ex:  # noqa
                ok = "raised " + type(ex).__name__
            want = rsig(a.__name__) == rsig(b.__name__)
            if ok is not want:
                bad.append(("as_quantity", a.__name__, "->", b.__name__, ok,
                            want))
            elif ok is True and (type(r) is not b or float(r) != 1.5):
                bad.append(("as_quantity-result", a.__name__, b.__name__,
                            type(r).__name__, float(r)))
            # add / sub / ordering across types
            # (zero is a quantity like any other: 0 m + 0 s is refused too)
            for vx, vy in ((2.0, 1.0), (2.0, 0.0), (0.0, 1.0), (0.0, 0.0),
                           (2.0, -0.0), (-0.0, 2.0), (2, 0)):
              x = mk(a, vx, None)
              y = mk(b, vy, None)
              for name, op in (("+", operator.add), ("-", operator.sub),
                               ("<", operator.lt), ("<=", operator.le),
                               (">", operator.gt), (">=", operator.ge)):
                n += 1
                try:
                    r = op(x, y)
                    raised = False
                except (ValueError, TypeError):
                    raised = True
                except Exception as ex:  # noqa
                    raised = "other " + type(ex).__name__
                if a is b:
                    if raised is not False:
                        bad.append(("same-type-op-raised", a.__name__, name))
                    else:
                        want = op(vx, vy)
                        if name in "+-":
                            if type(r) is not a or float(r) != want:
                                bad.append(("same-type-arith", a.__name__,
                                            name, float(r), want))
                        elif r is not want:
                            bad.append(("same-type-compare", a.__name__, name,
                                        r, want))
                elif raised is not True:
                    bad.append(("mixed-type-op-accepted", a.__name__, name,
                                b.__name__, raised, vx, vy))
            x = mk(a, 2.0, None)
            y = mk(b, 1.0, None)
            if a is not b:
                n += 1
                if (x == y) is not False or (x != y) is not True:
                    bad.append(("mixed-type-equality", a.__name__,
                                b.__name__))
            # the same between generic SI values: equal signatures compare,
            # add and subtract by value, different signatures are refused
            for va_, vb_ in ((2.0, 1.0), (1.5, 1.5), (-1.0, 0.0)):
                ga = mk(a, va_, None).asSI()
                gb = mk(b, vb_, None).asSI()
                same_sig = rsig(a.__name__) == rsig(b.__name__)
                for name, op in (("<", operator.lt), ("<=", operator.le),
                                 (">", operator.gt), (">=", operator.ge),
                                 ("+", operator.add), ("-", operator.sub)):
                    n += 1
                    try:
                        r = op(ga, gb)
                        raised = False
                    except (ValueError, TypeError):
                        raised = True
                    except Exception as ex:  # noqa
                        raised = "other " + type(ex).__name__
                    if not same_sig:
                        if raised is not True:
                            bad.append(("generic-SI-mixed-signature-accepted",
                                        a.__name__, name, b.__name__, raised))
                    elif raised is not False:
                        bad.append(("generic-SI-same-signature-refused",
                                    a.__name__, name, b.__name__, raised))
                    elif name in "+-":
                        if float(r) != op(va_, vb_) or \
                                sig_of(r, SI) != rsig(a.__name__):
                            bad.append(("generic-SI-arith", a.__name__, name,
                                        b.__name__, float(r), op(va_, vb_)))
                    elif r is not op(va_, vb_):
                        bad.append(("generic-SI-compare", a.__name__, name,
                                    b.__name__, (va_, vb_), r))
                # values derived from a generic value keep its unit text
                try:
                    for r_, w_ in ((-ga, -va_), (abs(ga), abs(va_)),
                                   (ga * 2, va_ * 2), (ga / 2, va_ / 2)):
                        n += 1
                        if float(r_) != w_ or r_.unit != ga.unit or \
                                list(r_.sisig()) != list(ga.sisig()):
                            bad.append(("generic-SI-derived-value",
                                        a.__name__, float(r_), w_, r_.unit,
                                        ga.unit))
                except Exception as ex:  # noqa
                    bad.append(("generic-SI-derived-value-raised", a.__name__,
                                type(ex).__name__))
                # the unit text of a generic value names its signature
                for g in (ga, gb):
                    try:
                        back = SI(float(g), g.unit)
                        if list(back.sisig()) != list(g.sisig()) or \
                                float(back) != float(g):
                            bad.append(("generic-SI-unit-text", a.__name__,
                                        g.unit, list(back.sisig()),
                                        list(g.sisig())))
                    except Exception as ex:  # noqa
                        bad.append(("generic-SI-unit-text-raised", a.__name__,
                                    repr(getattr(g, "unit", None)),
                                    type(ex).__name__))
        # number (*,/) quantity, quantity (*,/) number
        for (va, ua) in operands(a):
            x = mk(a, va, ua)
            xs = float(x)
            for k in (2, 0.5, -3):
                n += 1
                try:
                    r1, r2, r3 = x * k, k * x, x / k
                    if any(type(r) is not a for r in (r1, r2, r3)) or \
                            float(r1) != xs * k or float(r2) != xs * k or \
                            float(r3) != xs / k:
                        bad.append(("scaling", a.__name__, va, ua, k))
                    if xs != 0:
                        r4 = k / x
                        exp = [-p for p in rsig(a.__name__)]
                        if sig_of(r4, SI) != exp or float(r4) != k / xs:
                            bad.append(("number-over-quantity", a.__name__,
                                        type(r4).__name__, sig_of(r4, SI),
                                        exp))
                except Exception as ex:  # noqa
                    bad.append(("scaling-raised", a.__name__, va, ua, k,
                                type(ex).__name__))
            # same-type add/sub/compare act on SI values (different units)
            for (vb, ub) in operands(a)[:6]:
                y = mk(a, vb, ub)
                ys = float(y)
                n += 1
                try:
                    if float(x + y) != xs + ys or float(x - y) != xs - ys \
                            or (x < y) is not (xs < ys) \
                            or (x <= y) is not (xs <= ys) \
                            or (x > y) is not (xs > ys) \
                            or (x >= y) is not (xs >= ys) \
                            or (x == y) is not (xs == ys) \
                            or (x != y) is not (xs != ys):
                        bad.append(("same-type-on-si-values", a.__name__,
                                    (va, ua), (vb, ub)))
                except Exception as ex:  # noqa
                    bad.append(("same-type-raised", a.__name__, (va, ua),
                                (vb, ub), type(ex).__name__))
    return n, bad[:300]


def my_unit_string(sg):
    """independent printer: 'kg.m2/s3' style"""
    num = ".".join("%s%s" % (u, e if e != 1 else "")
                   for u, e in zip(ORDER, sg) if e > 0)
    den = ".".join("%s%s" % (u, -e if e != -1 else "")
                   for u, e in zip(ORDER, sg) if e < 0)
    if not den:
        return num
    return num + "/" + den


def default_unit_checks(U):
    """SI(v), SI(v, '') and SI(v, unit=''): generic values with the empty
    signature, interchangeable with every other dimensionless value"""
    SI = U.SI
    bad = []
    others = [("Dimensionless.asSI", U.Dimensionless(3.0).asSI()),
              ("(Speed/Speed).asSI", (U.Speed(6.0) / U.Speed(2.0)).asSI()),
              ("SI('m')/SI('m')", SI(3.0, "m") / SI(1.0, "m"))]
    for label, mk in (("SI(v)", lambda: SI(3.0)),
                      ("SI(v, '')", lambda: SI(3.0, "")),
                      ("SI(v, unit='')", lambda: SI(3.0, unit="")),
                      ("2*SI(v)/2", lambda: 2 * SI(3.0) / 2)):
        try:
            x = mk()
            if list(x.sisig()) != [0] * 9 or float(x) != 3.0:
                bad.append(("default-unit-signature", label,
                            list(x.sisig())))
            q = x.as_quantity(U.Dimensionless)
            if type(q) is not U.Dimensionless or float(q) != 3.0:
                bad.append(("default-unit-as_quantity", label))
            for olabel, o in others:
                if float(o) != 3.0:
                    continue
                if not (x == o) or (x != o) or not (o == x) or \
                        not (x <= o) or (x < o) or not (x >= o) or \
                        float(x + o) != 6.0 or float(x - o) != 0.0 or \
                        float(o + x) != 6.0:
                    bad.append(("default-unit-value-differs-from-"
                                "dimensionless-value", label, olabel))
        except Exception as ex:  # noqa
            bad.append(("default-unit-raised", label, type(ex).__name__,
                        str(ex)[:60]))
    return bad


def power_chains(U):
    """products of many factors: the exponents of the result are the sums,
    however large they grow (no table and no unit text is involved), and
    dividing the factors out again ends at a dimensionless value"""
    bad = []
    n = 0
    SI = U.SI
    bases = [U.Length, U.Mass, U.Duration, U.ElectricalCurrent, U.Temperature,
             U.AmountOfSubstance, U.LuminousIntensity, U.Angle, U.Speed,
             U.Force, U.Frequency]
    for q in bases:
        base = rsig(q.__name__)
        for first in ("quantity", "generic"):
            x = q(2.0)
            p = x if first == "quantity" else x.asSI()
            val = 2.0
            try:
                for k in range(2, 15):
                    p = p * x
                    val *= 2.0
                    n += 1
                    if sig_of(p, SI) != [k * e for e in base] or \
                            float(p) != val:
                        bad.append(("power-chain", q.__name__, first, "*", k,
                                    sig_of(p, SI), float(p)))
                        break
                inv = (1.0 / x) if first == "quantity" else \
                    (SI(1.0, "") / x.asSI())
                for k in range(13, -3, -1):
                    p = p / x if k % 2 else p * inv
                    val /= 2.0
                    n += 1
                    if sig_of(p, SI) != [k * e for e in base] or \
                            float(p) != val:
                        bad.append(("power-chain", q.__name__, first, "/", k,
                                    sig_of(p, SI), float(p)))
                        break
                # two large powers against each other
                a = b = x.asSI()
                for _ in range(6):
                    a = a * x
                for _ in range(11):
                    b = b * x
                n += 3
                r = b / a
                if sig_of(r, SI) != [5 * e for e in base] or float(r) != 32.0:
                    bad.append(("power-quotient", q.__name__, sig_of(r, SI),
                                float(r)))
                try:
                    a + b
                    bad.append(("powers-7-and-12-added", q.__name__))
                except (ValueError, TypeError):
                    pass
                if a == b * (1.0 / 32.0):
                    bad.append(("powers-7-and-12-compare-equal", q.__name__))
            except Exception as ex:  # noqa
                bad.append(("power-chain-raised", q.__name__, first,
                            type(ex).__name__, str(ex)[:80]))
    return n, bad


def user_subclass_checks(U):
    SI = U.SI
    bad = []
    try:
        parent = U.Torque
        U.Torque(2.0).sisig()
        (U.Torque(2.0) * U.Dimensionless(2.0))

        class RotationalStiffness(parent):
            _baseunit = "Nm/rad"
            _units = {"Nm/rad": 1.0, "kNm/rad": 1000.0}
            _displayunits = {}
            _descriptions = {"Nm/rad": "newton metre per radian",
                             "kNm/rad": "kilonewton metre per radian"}
            _sidict = {"kg": 1, "m": 2, "s": -2, "rad": -1}
            _mul = {}
            _div = {}
        want = [-1, 0, 1, 2, -2, 0, 0, 0, 0]
        k = RotationalStiffness(3.0, "kNm/rad")
        if list(k.sisig()) != want or list(RotationalStiffness.sisig()) != \
                want:
            bad.append(("user-subclass-signature", list(k.sisig()), want))
        if list(U.Torque(1.0).sisig()) != [0, 0, 1, 2, -2, 0, 0, 0, 0]:
            bad.append(("parent-signature-changed",
                        list(U.Torque(1.0).sisig())))
        g = k.asSI()
        if list(g.sisig()) != want or float(g) != 3000.0:
            bad.append(("user-subclass-asSI", list(g.sisig()), float(g)))
        r = k * U.Angle(2.0)
        if list(r.sisig()) != [0, 0, 1, 2, -2, 0, 0, 0, 0] or \
                float(r) != 6000.0:
            bad.append(("user-subclass-product", list(r.sisig()), float(r)))
        try:
            U.Torque(7.0).asSI().as_quantity(RotationalStiffness)
            bad.append(("torque-signature-accepted-as-user-subclass",))
        except ValueError:
            pass
        q = g.as_quantity(RotationalStiffness)
        if type(q) is not RotationalStiffness or float(q) != 3000.0:
            bad.append(("user-subclass-as_quantity", type(q).__name__))
    except Exception as ex:  # noqa
        bad.append(("user-subclass-raised", type(ex).__name__, str(ex)[:80]))
    return bad


def si_worker(task):
    kidx, nz = task
    import pydsol.core.units as U
    SI = U.SI
    n = 0
    bad = []
    for idxs in itertools.combinations(range(9), nz):
        if nz and idxs[0] != kidx:
            continue
        for exps in itertools.product([-3, -2, -1, 1, 2, 3], repeat=nz):
            sg = [0] * 9
            for i, e in zip(idxs, exps):
                sg[i] = e
            try:
                s = SI(1.0, my_unit_string(sg))
                got = list(s.sisig())
            except Exception as ex:  # noqa
                bad.append(("parse-raised", my_unit_string(sg),
                            type(ex).__name__))
                continue
            n += 1
            if got != sg:
                bad.append(("parse", my_unit_string(sg), got, sg))
                continue
            for div in (True, False):
                for hat in ("", "^"):
                    for dot in ("", "."):
                        n += 1
                        try:
                            st = s.siunit(div, hat, dot)
                            back = list(SI.str_to_sisig(st))
                        except Exception as ex:  # noqa
                            bad.append(("roundtrip-raised", sg, div, hat, dot,
                                        type(ex).__name__))
                            continue
                        if back != sg:
                            bad.append(("roundtrip", sg, (div, hat, dot), st,
                                        back))
    if kidx == 0 and nz == 1:
        # unparsable unit texts are refused, every time they are offered
        for txt in ("m/sec", "km/h", "N.m", "cdcd", "m^22", "s-", "kgg",
                    "m//s", "1/s", "m s", "µm", "m2x", "x"):
            for attempt in (1, 2, 3):
                n += 1
                try:
                    got = SI.str_to_sisig(txt)
                    bad.append(("unparsable-unit-accepted", txt, attempt,
                                list(got)))
                except ValueError:
                    pass
                except Exception as ex:  # noqa
                    bad.append(("unparsable-unit-wrong-exception", txt,
                                attempt, type(ex).__name__))
            n += 1
            try:
                SI(1.0, txt)
                bad.append(("unparsable-unit-accepted-by-SI", txt))
            except ValueError:
                pass
            except Exception as ex:  # noqa
                bad.append(("unparsable-unit-wrong-exception-SI", txt,
                            type(ex).__name__))
        # a quantity type defined by a user on top of a library type, with
        # its own signature (N.m/rad on top of Torque): used after the parent
        bad += user_subclass_checks(U)
        bad += default_unit_checks(U)
        n_, b_ = power_chains(U)
        n += n_
        bad += b_
        # the SI unit text of every named quantity class, in every format,
        # names the signature of that class
        for q in U.QUANTITIES:
            for div in (True, False):
                for hat in ("", "^"):
                    for dot in ("", "."):
                        n += 1
                        try:
                            st = q.siunit(div, hat, dot)
                            # (the class text writes a bare numerator as
                            # '1': '1' for Dimensionless, '1/s' for Frequency)
                            txt = "" if st == "1" else \
                                st[1:] if st.startswith("1/") else st
                            back = list(SI.str_to_sisig(txt))
                        except Exception as ex:  # noqa
                            bad.append(("class-unit-text-raised", q.__name__,
                                        div, hat, dot, type(ex).__name__))
                            continue
                        if back != list(q.sisig()):
                            bad.append(("class-unit-text", q.__name__,
                                        (div, hat, dot), st, back,
                                        list(q.sisig())))
    return n, bad[:100]


def run(ctx):
    import pydsol.core.units as U
    nq = len(U.QUANTITIES)
    step = 3
    tasks = [(i, min(nq, i + step)) for i in range(0, nq, step)]
    total = 0
    for n, bad in common.pimap(pair_worker, tasks):
        total += n
        for b in bad:
            ctx.violation("C16:%s:%s" % (b[0], ":".join(
                str(x) for x in b[1:4] if isinstance(x, str))),
                "quantity arithmetic: %s" % (b,), {"case": list(b)})
    ctx.part("pair table", quantity_classes=nq, operations=total)
    if set(q.__name__ for q in U.QUANTITIES) != set(REF):
        ctx.violation("C16:class-list", "QUANTITIES differs from the 41 "
                      "reference classes: %s" % sorted(
                          set(q.__name__ for q in U.QUANTITIES) ^ set(REF)),
                      {"case": "class-list"})
    stasks = [(k, nz) for nz in (0, 1, 2, 3) for k in range(9)
              if not (nz == 0 and k)]
    rt = 0
    for n, bad in common.pimap(si_worker, stasks):
        rt += n
        for b in bad:
            ctx.violation("C16:si-string:%s" % b[0],
                          "SI unit string: %s" % (b,), {"case": list(b)})
    ctx.part("SI string round trips", evaluations=rt)
    ctx.sample({"pair": "Force(3 N) / Area(2 m^2)", "expected_signature":
                [p - q for p, q in zip(rsig("Force"), rsig("Area"))]})
    ctx.sample({"si_string": my_unit_string([0, 0, 1, 2, -3, -1, 0, 0, 0])})
    ctx.coverage.update(
        evaluations=total + rt, distinct_nontrivial=nq * nq,
        rule="all %d x %d ordered pairs of quantity classes x {*, /} x 6x5 "
        "(value, unit) operand combinations; quantity/SI and SI/quantity with "
        "a reused SI operand (operands must stay unchanged); all pairs "
        "asSI().as_quantity(); add/sub/ordering/equality for all type pairs; "
        "number scaling; same-type ops across units; all SI signatures with "
        "<=3 non-zero exponents in -3..3 x 8 print formats. "
        "distinct_nontrivial = number of ordered class pairs." % (nq, nq))
    ctx.assumptions += [
        "reference signatures written from the SI definitions (not read from "
        "the library tables)",
        "division by a zero quantity is outside the table"]


def replay(data):
    import pydsol.core.units as U
    n, bad = pair_worker((0, len(U.QUANTITIES)))
    if bad:
        return bad[:3]
    for k in range(9):
        for nz in (1, 2, 3):
            n, bad = si_worker((k, nz))
            if bad:
                return bad[:3]
    return None
