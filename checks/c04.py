"""C04 - simulator lifecycle: commands, states and notifications follow the
protocol.

C04a: explicit-state BFS over command sequences issued at quiescence on the
      real simulator (including commands issued from event handlers and from
      listeners, i.e. from the run thread or from inside start()), against a
      protocol reference; every transition re-executes the real simulator
      under the cooperative scheduler.
C04b: all interleavings of a command with the run thread's transitions up to
      a preemption bound (source-line scheduling points in simulator.py).
"""
import collections
import copy
import itertools

from vlib import common, coopsched, lifecycle as LC

LEVEL = "model_checking"

END, WARM, MID = LC.END, LC.WARMUP, LC.MID
REFUSED_IN_RUN = ("start", "step", "upto", "uptoi", "initialize")


# =========================================================== reference (C04a)
class R:
    def __init__(self):
        self.phase = "NOT_INIT"
        self.clock = 0.0
        self.pend = []
        self.trace = []
        self.wfired = False
        self.live = 0
        self.announced = True   # the listeners know the current clock value
        # simple attributes of the REAL simulator observed in this state (not
        # part of the reference semantics, only of the search state)
        self.hidden = None

    def init(self):
        self.phase = "INIT"
        self.clock = 0.0
        self.pend = sorted([(t, i) for i, t in enumerate(LC.TIMES)]
                           + [(WARM, "W")], key=lambda e: (e[0],
                                                           0 if e[1] == "W"
                                                           else 1))
        self.trace = []
        self.wfired = False
        self.live = 1
        self.announced = True

    def canon(self):
        return (self.phase, self.clock, tuple(self.trace), self.wfired,
                self.live, self.announced)

    def fix_clock(self, real_clock):
        if self.clock is None:
            self.clock = real_clock

    def states(self):
        return {"NOT_INIT": ("NOT_INITIALIZED", "NOT_INITIALIZED"),
                "INIT": ("INITIALIZED", "INITIALIZED"),
                "STOPPED": ("STOPPED", "STARTED"),
                "ENDED": ("ENDED", "ENDED")}[self.phase]


def alt(r, outcome, armed=None, note=""):
    return dict(r=r, outcome=outcome, armed=armed, note=note)


def ref_quiescent(r0, cmd):
    """alternatives for a command issued at quiescence without an arm"""
    k = cmd[0]
    r = copy.deepcopy(r0)
    same = copy.deepcopy(r0)
    if k == "initialize":
        r.init()
        return [alt(r, "ok")]
    if k in ("stop", "initialize_bad"):
        return [alt(same, "DSOLError")]
    if k == "cleanup":
        r.phase = "NOT_INIT"
        r.live = 0
        return [alt(r, "ok")]
    if k == "end_replication":
        if r.phase in ("NOT_INIT", "ENDED"):
            return [alt(same, "DSOLError")]
        r.phase = "ENDED"
        r.clock = END
        r.pend = []
        r.live = 0
        if r0.phase == "INIT":       # undocumented cell
            return [alt(r, "ok", note="?"), alt(same, "DSOLError", note="?")]
        return [alt(r, "ok")]
    if r.phase in ("NOT_INIT", "ENDED"):
        return [alt(same, "DSOLError")]
    if k == "step":
        if r.pend and r.pend[0][0] <= END:
            t, tag = r.pend.pop(0)
            r.clock = t
            r.announced = True
            if tag == "W":
                r.wfired = True
            else:
                r.trace.append((t, tag))
        r.phase = "STOPPED"
        return [alt(r, "ok")]
    # run pieces
    return run_piece(r0, cmd, None)


def bounds(cmd):
    if cmd[0] == "start":
        return END, True
    return cmd[1], cmd[0] == "uptoi"


def run_piece(r0, cmd, arm):
    """reference execution of a run piece with an optional armed command;
    returns the list of acceptable alternatives"""
    bound, incl = bounds(cmd)
    unspecified = bound < r0.clock or bound > END
    if bound > END:
        bound, incl = END, True
    r = copy.deepcopy(r0)
    where, X = arm if arm else (None, None)
    fired = []            # [(location, sub-case)]
    stop_req = False
    ended_by_arm = False
    cleaned = False
    armed_alts = [None]

    def visit(loc, pre_stop=True, natural_end=False, at_ended=False):
        """the arm fires at the first visit of its location; returns the
        list of acceptable armed outcomes and applies the effect"""
        nonlocal stop_req, ended_by_arm, cleaned, armed_alts, where
        if where != loc:
            return
        where = None
        k = X[0]
        fired.append(loc)
        if at_ended:
            if k == "initialize":
                armed_alts = ["ok:reinit"]
            elif k == "cleanup":
                armed_alts = ["ok:cleanup"]
            else:
                armed_alts = ["DSOLError"]
            return
        if not pre_stop:                 # on:STOP, run state STOPPING
            if k == "stop":
                armed_alts = ["DSOLError"]
            elif k == "cleanup":
                armed_alts = ["ok:cleanup"]
            elif natural_end:
                if k == "initialize":
                    armed_alts = ["DSOLError", "ok:reinit"]
                else:
                    armed_alts = ["DSOLError"]
            else:
                # paused / bounded run still STOPPING: a command is either
                # refused without effect or takes effect
                if k == "end_replication":
                    armed_alts = ["ok:end", "DSOLError"]
                elif k == "initialize":
                    armed_alts = ["DSOLError", "ok:reinit"]
                else:
                    armed_alts = ["DSOLError", "ok:resume"]
            return
        if k in REFUSED_IN_RUN:
            armed_alts = ["DSOLError"]
        elif k == "stop":
            armed_alts = ["ok"]
            stop_req = True
        elif k == "stop_start":
            # stop() and, in the same handler, a start that has to be
            # refused: the pause that was asked for holds
            armed_alts = [("ok", "DSOLError")]
            stop_req = True
        elif k == "end_replication":
            armed_alts = ["ok"]
            ended_by_arm = True
        elif k == "cleanup":
            armed_alts = ["ok"]
            cleaned = True
    first = r.phase == "INIT"
    if first:
        visit("on:START_REPLICATION")
    if not (stop_req or ended_by_arm or cleaned):
        visit("on:STARTING")
    if not (stop_req or ended_by_arm or cleaned):
        visit("on:START")
    extra_exec_ok = False
    while not (stop_req or ended_by_arm or cleaned):
        if not r.pend:
            break
        t, tag = r.pend[0]
        if t > bound or (t == bound and not incl):
            break
        if t != r.clock or not r.announced:
            # (also for an event at the bound where a bounded run paused:
            # nobody has been told about that time yet)
            r.announced = True
            visit("on:TIME_CHANGED")
        r.pend.pop(0)
        r.clock = t
        if tag == "W":
            r.wfired = True
            if not cleaned:
                visit("on:WARMUP")
        else:
            r.trace.append((t, tag))
            if not cleaned:
                visit("h%d" % tag)
    natural = not (stop_req or ended_by_arm or cleaned)
    outs = []
    if cleaned:
        r.phase = "NOT_INIT"
        r.live = 0
        a = alt(r, "ok", armed_alts[0])
        outs.append(a)
        # cleanup issued inside start() itself (driver thread): start() may
        # report the clean-up as a refusal
        if fired and fired[0] in ("on:START_REPLICATION", "on:STARTING"):
            outs.append(alt(copy.deepcopy(r), "DSOLError", armed_alts[0]))
        return outs
    if ended_by_arm:
        r.phase = "ENDED"
        # the clock after end_replication() issued inside a bounded run is
        # not documented (end time or the bound): not compared
        r.clock = END if cmd[0] == "start" else None
        r.pend = []
        r.live = 0
        return [alt(r, "ok", armed_alts[0])]
    if stop_req:
        r.phase = "STOPPED"
        return [alt(r, "ok", armed_alts[0])]
    # natural completion of the piece
    if bound > r.clock:
        r.clock = bound
        r.announced = False
    will_end = bound >= END and incl
    before_stop = copy.deepcopy(r)
    visit("on:STOP", pre_stop=False, natural_end=will_end)
    alts_after_stop = list(armed_alts)
    res = []
    for a in alts_after_stop:
        rr = copy.deepcopy(before_stop)
        if a == "ok:cleanup":
            rr.phase = "NOT_INIT"
            rr.live = 0
            res.append(alt(rr, "ok", "ok"))
            continue
        if a == "ok:reinit":
            rr.init()
            res.append(alt(rr, "ok", "ok"))
            continue
        if a == "ok:end":
            rr.phase = "ENDED"
            rr.clock = END
            rr.pend = []
            rr.live = 0
            res.append(alt(rr, "ok", "ok"))
            continue
        if a == "ok:resume":
            # the armed run command takes effect: continue per its own bound
            if X[0] == "step":
                sub = ref_quiescent(finish(rr, False), X)
            else:
                sub = run_piece(finish(rr, False), X, None)
            for s_ in sub:
                res.append(alt(s_["r"], "ok", "ok"))
            continue
        rr = finish(rr, will_end)
        if will_end:
            # on:END_REPLICATION
            armed_alts = [a]
            visit("on:END_REPLICATION", at_ended=True)
            a2 = armed_alts[0]
            if a2 == "ok:reinit":
                rr.init()
                res.append(alt(rr, "ok", "ok"))
                continue
            if a2 == "ok:cleanup":
                rr.phase = "NOT_INIT"
                rr.live = 0
                res.append(alt(rr, "ok", "ok"))
                continue
            res.append(alt(rr, "ok", a2))
        else:
            res.append(alt(rr, "ok", a))
    if unspecified:
        same = copy.deepcopy(r0)
        res.append(alt(same, "DSOLError", None, note="?"))
        for x in res:
            x["note"] = "?"
    return res


def finish(rr, will_end):
    if will_end:
        rr.phase = "ENDED"
        rr.live = 0
    else:
        rr.phase = "STOPPED"
    return rr


# =========================================================== real side (C04a)
ARMS = [(loc, x) for loc in ("on:START_REPLICATION", "on:STARTING",
                             "on:START", "on:TIME_CHANGED", "h1", "on:WARMUP",
                             "on:STOP", "on:END_REPLICATION")
        for x in (("stop",), ("start",), ("step",), ("initialize",),
                  ("upto", MID), ("end_replication",), ("cleanup",))]
PLAIN = [("initialize",), ("initialize_bad",), ("start",), ("step",),
         ("stop",), ("upto", MID),
         ("uptoi", 2.0), ("upto", 2.0), ("upto", END), ("end_replication",),
         ("cleanup",)]


def alphabet(with_arms=True):
    a = [(c, None) for c in PLAIN]
    if with_arms:
        a += [(("start",), arm) for arm in ARMS]
        a += [(cmd, (loc, ("stop_start",)))
              for cmd in (("start",), ("upto", MID))
              for loc in ("h1", "on:TIME_CHANGED")]
        a += [(("upto", MID), arm) for arm in ARMS
              if arm[0] in ("on:STOP", "on:TIME_CHANGED", "h1")]
    return a


def execute(hist):
    """run the command history on a fresh real simulator; returns the list of
    observations (one per command) or a failure"""
    def body(s):
        w = LC.new_world()
        obs = []
        for cmd, arm in hist:
            obs.append(LC.command(w, s, tuple(cmd), arm))
        final_stream = list(w.stream)
        LC.classes()["issue_raw"](w, ("cleanup",))
        s.wait_quiescent()
        fin = LC.snapshot(w, s)
        return obs, final_stream, fin
    with common.quiet_stdio():
        r = coopsched.run_one(body)
    return r


def match(o, a):
    """does real observation o match reference alternative a?"""
    r = a["r"]
    if o["outcome"] != a["outcome"]:
        return "outcome %s, expected %s" % (o["outcome"], a["outcome"])
    if a["armed"] is not None and o["armed_outcome"] != a["armed"]:
        return "command issued from the run thread: %s, expected %s" % (
            o["armed_outcome"], a["armed"])
    if (o["run"], o["rep"]) != r.states():
        return "state %s/%s, expected %s/%s" % ((o["run"], o["rep"])
                                                + r.states())
    if r.phase != "NOT_INIT" and r.clock is not None and \
            o["clock"] != r.clock:
        return "clock %s, expected %s" % (o["clock"], r.clock)
    if r.phase != "NOT_INIT" and o["trace"] != r.trace:
        return "executed %s, expected %s" % (o["trace"], r.trace)
    if r.phase in ("INIT", "STOPPED") and o.get("pending") is not None \
            and o["pending"] != len(r.pend):
        return "%s pending events, expected %d" % (o["pending"], len(r.pend))
    if o["live_threads"] != r.live:
        return "%d live run threads, expected %d" % (o["live_threads"],
                                                     r.live)
    return None


def split_replications(hist, obs):
    """notification streams per replication (a successful initialize starts a
    new one)"""
    reps = []
    cur = None
    for (cmd, arm), o in zip(hist, obs):
        em = o["emitted"]
        if cmd[0] == "initialize" and o["outcome"] == "ok":
            cur = []
            reps.append(cur)
            continue
        # an armed initialize that succeeded starts a new replication too
        if cur is None:
            cur = []
            reps.append(cur)
        idx = [i for i, x in enumerate(em) if x[0] == "ARMED"
               and x[2][0] == "initialize" and x[3] == "ok"]
        if idx:
            cur.extend(em[:idx[0] + 1])
            cur = list(em[idx[0] + 1:])
            reps.append(cur)
        else:
            cur.extend(em)
    return reps


def judge_transition(hist, step, r_before):
    """execute hist+[step]; compare the last observation with the reference
    alternatives for r_before; returns (violations, next_r or None)"""
    res = execute(list(hist) + [step])
    cmd, arm = step
    if res.failure:
        return [("scheduler-%s" % res.failure[0], str(res.failure[1])[:160])], \
            None
    obs, stream, fin = res.value
    o = obs[-1]
    if arm is None:
        alts = ref_quiescent(r_before, cmd)
    elif r_before.phase in ("NOT_INIT", "ENDED"):
        alts = ref_quiescent(r_before, cmd)      # the piece is refused
        for a in alts:
            a["armed"] = None
    else:
        alts = run_piece(r_before, cmd, arm)
    bad = []
    why = []
    chosen = None
    for a in alts:
        m = match(o, a)
        if m is None:
            chosen = a
            break
        # prefer the explanation from the alternative whose outcomes agree
        agree = (o["outcome"] == a["outcome"]) + (
            a["armed"] is None or o["armed_outcome"] == a["armed"])
        why.append((-agree, len(why), m))
    if chosen is None:
        bad.append(("protocol", sorted(why)[0][2] if why
                    else "no alternative"))
    # a refused command notifies nobody and changes nothing
    if o["outcome"] == "DSOLError":
        if [x for x in o["emitted"] if x[0] != "ARMED"]:
            bad.append(("refused-command-notified", o["emitted"][:4]))
    for x in o["emitted"]:
        if x[0] == "ARMED" and x[3] == "DSOLError":
            pass
    # stream monitor over each replication seen so far
    for rep in split_replications(list(hist) + [step], obs):
        for b in LC.monitor(rep):
            bad.append(("stream",) + b)
    # END_REPLICATION exactly when the replication ended
    if chosen is not None and chosen["r"].phase == "ENDED":
        reps = split_replications(list(hist) + [step], obs)
        if reps and [x[0] for x in reps[-1]].count("END_REPLICATION") != 1:
            bad.append(("stream", "ENDED without exactly one "
                        "END_REPLICATION"))
    # after the final cleanup the run thread terminates
    if fin["live_threads"] != 0 or (fin["run"], fin["rep"]) != (
            "NOT_INITIALIZED", "NOT_INITIALIZED"):
        bad.append(("after-cleanup", fin))
    if chosen is not None:
        chosen["r"].fix_clock(o["clock"])
        chosen["r"].hidden = o.get("attrs")
    return bad, (chosen["r"] if chosen is not None and not bad else None)


def fmt(step):
    cmd, arm = step
    s = cmd[0] + ("(%s)" % cmd[1] if len(cmd) > 1 else "")
    if arm:
        x = arm[1]
        s += "[%s: %s]" % (arm[0], x[0] + ("(%s)" % x[1] if len(x) > 1
                                           else ""))
    return s


def sig_a(step, b):
    if b[0] == "protocol":
        return "C04a:%s:protocol:%s" % (fmt(step), str(b[1]).split(",")[0])
    return "C04a:%s:%s" % (fmt(step), b[0] if b[0] != "stream"
                           else "stream:" + str(b[1]))


def bfs_a(max_depth):
    try:
        return bfs_a_(max_depth, True)
    except common.FingerprintTooFine:
        return bfs_a_(max_depth, False)


def bfs_a_(max_depth, use_fp):
    coopsched.install()
    refstates = set()
    seen = {R().canon(): ()}
    refs = {R().canon(): R()}
    frontier = collections.deque([()])
    trans = 0
    viols = []
    alpha = alphabet()
    maxd = 0
    while frontier:
        h = frontier.popleft()
        maxd = max(maxd, len(h))
        if len(h) >= max_depth:
            continue
        r0 = refs[canon_of(h, refs, seen)]
        for step in alpha:
            trans += 1
            bad, r1 = judge_transition(h, step, r0)
            for b in bad:
                viols.append((sig_a(step, b), h + (step,), b))
            if r1 is None:
                continue
            c = r1.canon()
            refstates.add(c)
            if r1.hidden is not None and use_fp:
                c = (c, r1.hidden)
                common.fp_guard(len(seen), len(refstates), factor=12,
                                slack=100)
            if c not in seen:
                seen[c] = h + (step,)
                refs[c] = r1
                frontier.append(h + (step,))
    return seen, trans, viols, maxd


_hist_canon = {(): R().canon()}


def canon_of(h, refs, seen):
    for c, hh in seen.items():
        if hh == h:
            return c
    raise common.HarnessError("history without state")


def raw_worker(task):
    """raw command sequences without dedup (validates the canonicalisation:
    the reference must predict every step of every sequence)"""
    first, depth = task
    coopsched.install()
    n = 0
    viols = []
    plain = [(c, None) for c in PLAIN]
    for rest in itertools.product(plain, repeat=depth - 1):
        seq = (first,) + rest
        n += 1
        res = execute(list(seq))
        if res.failure:
            viols.append(("C04a:raw:scheduler", seq, res.failure))
            continue
        obs, stream, fin = res.value
        r = R()
        for i, (step, o) in enumerate(zip(seq, obs)):
            alts = ref_quiescent(r, step[0])
            ok = None
            for a in alts:
                if match(o, a) is None:
                    ok = a
                    break
            if ok is None:
                viols.append(("C04a:raw:%s:protocol" % fmt(step), seq[:i + 1],
                              ("protocol", match(o, alts[0]))))
                break
            r = ok["r"]
        for rep in split_replications(list(seq), obs):
            for b in LC.monitor(rep):
                viols.append(("C04a:raw:stream:%s" % (b[0],), seq, b))
    return n, viols[:100]


# =========================================================== C04b
def scen_S1(s):
    """start(); stop() -- stop lands anywhere, including the natural end"""
    w = LC.new_world(times=(1.0, 2.0), end=3.0, warmup=0.0)
    I = LC.classes()["issue_raw"]
    r = [I(w, ("initialize",))]
    s.wait_quiescent()
    r.append(I(w, ("start",)))
    r.append(I(w, ("stop",)))
    s.wait_quiescent()
    return finish_b(w, s, r)


def scen_S3(s):
    """resume-after-pause idiom: the model pauses itself (handler-issued
    stop at the 2nd event), the driver polls and starts again"""
    w = LC.new_world(times=(1.0, 2.0, 3.0), end=5.0, warmup=0.0)
    I = LC.classes()["issue_raw"]
    r = [I(w, ("initialize",))]
    s.wait_quiescent()
    w.arm = ("h1", ("stop",))
    r.append(I(w, ("start",)))
    n = 0
    while w.sim.is_starting_or_running() and n < 10000:
        coopsched.coop_sleep(0.001)
        n += 1
    r.append(I(w, ("start",)))
    s.wait_quiescent()
    return finish_b(w, s, r)


def scen_S3f(s):
    """resume-after-pause idiom with a failing handler under WARN_AND_PAUSE:
    the run thread goes STOPPING on its own, the driver polls and starts"""
    from pydsol.core.simulator import ErrorStrategy
    w = LC.new_world(times=(1.0, 2.0, 3.0), end=5.0, warmup=0.0)
    I = LC.classes()["issue_raw"]
    w.sim.set_error_strategy(ErrorStrategy.WARN_AND_PAUSE)
    r = [I(w, ("initialize",))]
    s.wait_quiescent()
    w.arm = ("h1", ("raise",))
    r.append(I(w, ("start",)))
    n = 0
    while w.sim.is_starting_or_running() and n < 10000:
        coopsched.coop_sleep(0.001)
        n += 1
    r.append(I(w, ("start",)))
    s.wait_quiescent()
    return finish_b(w, s, r)


def scen_S4(s):
    """start(); stop(); step(); start()"""
    w = LC.new_world(times=(1.0, 2.0, 3.0), end=5.0, warmup=0.0)
    I = LC.classes()["issue_raw"]
    r = [I(w, ("initialize",))]
    s.wait_quiescent()
    r.append(I(w, ("start",)))
    r.append(I(w, ("stop",)))
    r.append(I(w, ("step",)))
    s.wait_quiescent()
    r.append(I(w, ("start",)))
    s.wait_quiescent()
    return finish_b(w, s, r)


def scen_S5c(s):
    """start(); cleanup() racing the run"""
    w = LC.new_world(times=(1.0, 2.0), end=3.0, warmup=0.0)
    I = LC.classes()["issue_raw"]
    r = [I(w, ("initialize",))]
    s.wait_quiescent()
    r.append(I(w, ("start",)))
    r.append(I(w, ("cleanup",)))
    s.wait_quiescent()
    return finish_b(w, s, r)


def scen_S5i(s):
    """start(); initialize() racing the natural end; then start()"""
    w = LC.new_world(times=(1.0, 2.0), end=3.0, warmup=0.0)
    I = LC.classes()["issue_raw"]
    r = [I(w, ("initialize",))]
    s.wait_quiescent()
    r.append(I(w, ("start",)))
    r.append(I(w, ("initialize",)))
    s.wait_quiescent()
    r.append(I(w, ("start",)))
    s.wait_quiescent()
    return finish_b(w, s, r)


def scen_S6(s):
    """back-to-back bounded runs"""
    w = LC.new_world(times=(1.0, 2.0, 3.0), end=5.0, warmup=0.0)
    I = LC.classes()["issue_raw"]
    r = [I(w, ("initialize",))]
    s.wait_quiescent()
    r.append(I(w, ("upto", 1.5)))
    n = 0
    while w.sim.is_starting_or_running() and n < 10000:
        coopsched.coop_sleep(0.001)
        n += 1
    r.append(I(w, ("uptoi", 3.0)))
    s.wait_quiescent()
    r.append(I(w, ("start",)))
    s.wait_quiescent()
    return finish_b(w, s, r)


def scen_S8(s):
    """start(); end_replication() issued by the driver while the run thread
    is active"""
    w = LC.new_world(times=(1.0, 2.0), end=3.0, warmup=0.0)
    I = LC.classes()["issue_raw"]
    r = [I(w, ("initialize",))]
    s.wait_quiescent()
    r.append(I(w, ("start",)))
    r.append(I(w, ("end_replication",)))
    s.wait_quiescent()
    return finish_b(w, s, r)


def scen_S9(s):
    """a start command issued while a bounded run is in the middle of a
    handler (state STARTED) that pauses shortly afterwards: refused, and the
    bounded run pauses at its bound"""
    w = LC.new_world(times=(1.0, 2.0, 3.0), end=5.0, warmup=0.0)
    I = LC.classes()["issue_raw"]
    r = [I(w, ("initialize",))]
    s.wait_quiescent()
    w.arm = ("h0", ("sleep", 0.2))
    r.append(I(w, ("upto", 1.5)))
    n = 0
    while not w.busy and n < 10000:
        coopsched.coop_sleep(0.001)
        n += 1
    r.append(I(w, ("start",)))
    s.wait_quiescent()
    return finish_b(w, s, r)


def scen_S10(s):
    """start(); end_replication() from the driver; initialize() right away
    (refused while the run is still winding up): the request to end holds"""
    w = LC.new_world(times=(0.5,), endless=12, end=1e9, warmup=0.0)
    I = LC.classes()["issue_raw"]
    r = [I(w, ("initialize",))]
    s.wait_quiescent()
    r.append(I(w, ("start",)))
    r.append(I(w, ("end_replication",)))
    n_at = len(w.model.trace)
    r.append(I(w, ("initialize",)))
    s.wait_quiescent()
    obs = finish_b(w, s, r)
    obs["n_at"] = n_at
    return obs


def scen_S2(s):
    """rapid start/stop alternation on an endless model, then
    end_replication (the repository's start/stop demo)"""
    w = LC.new_world(times=(0.5,), endless=12, end=1e9, warmup=0.0)
    I = LC.classes()["issue_raw"]
    r = [I(w, ("initialize",))]
    s.wait_quiescent()
    r.append(I(w, ("start",)))
    r.append(I(w, ("stop",)))
    r.append(I(w, ("start",)))
    r.append(I(w, ("stop",)))
    s.wait_quiescent()
    r.append(I(w, ("end_replication",)))
    s.wait_quiescent()
    return finish_b(w, s, r)


SCEN = {"S1": (scen_S1, (1.0, 2.0), 3.0), "S3": (scen_S3, (1.0, 2.0, 3.0), 5.0),
        "S3f": (scen_S3f, (1.0, 2.0, 3.0), 5.0),
        "S4": (scen_S4, (1.0, 2.0, 3.0), 5.0),
        "S5cleanup": (scen_S5c, (1.0, 2.0), 3.0),
        "S5init": (scen_S5i, (1.0, 2.0), 3.0),
        "S6": (scen_S6, (1.0, 2.0, 3.0), 5.0),
        "S8": (scen_S8, (1.0, 2.0), 3.0),
        "S9": (scen_S9, (1.0, 2.0, 3.0), 5.0),
        "S10": (scen_S10, None, 1e9),
        "S2": (scen_S2, None, 1e9)}


def finish_b(w, s, outcomes):
    obs = LC.snapshot(w, s)
    obs["outcomes"] = tuple(outcomes)
    obs["stream"] = list(w.stream)
    # afterwards the simulator must still be usable / cleanable
    LC.classes()["issue_raw"](w, ("cleanup",))
    s.wait_quiescent()
    obs["after_cleanup"] = LC.snapshot(w, s)
    return obs


def judge_b(name):
    fn, times, end = SCEN[name]

    def judge(res):
        """returns (outcome key, list of broken invariants)"""
        key, bad = judge0(res)
        # how many preemptions this schedule needed is part of the identity of
        # a finding: the same symptom reached with fewer preemptions is new
        p = coopsched.preemptions(res.points)
        return key, [b + ("p%d" % p,) for b in bad]

    def judge0(res):
        if res.failure:
            return ("scheduler", res.failure[0]), [("I1-" + res.failure[0],
                                                    str(res.failure[1])[:120])]
        o = res.value
        if o is None:
            return ("no-result",), [("I1-driver-died", "")]
        bad = []
        outs = o["outcomes"]
        state = (o["run"], o["rep"])
        key = (outs, state, o["clock"], tuple(t for t, _ in o["trace"]),
               o["live_threads"])
        # I1 every command returned normally or raised DSOLError
        for x in outs:
            if x not in ("ok", "DSOLError"):
                bad.append(("I1-command-raised", x))
        # I2 quiescent state legal
        legal = {("INITIALIZED", "INITIALIZED"), ("STOPPED", "STARTED"),
                 ("ENDED", "ENDED"), ("NOT_INITIALIZED", "NOT_INITIALIZED")}
        if state not in legal:
            bad.append(("I2-wedged-state", state))
        # I3 stream monitor (per replication: split at successful initialize)
        reps = [[]]
        for x in o["stream"]:
            reps[-1].append(x)
        for b in LC.monitor(o["stream"], warmup=0.0,
                            listeners_stay=name != "S5cleanup") \
                if name != "S5init" \
                else []:
            bad.append(("I3-stream", b[0]))
        # I4 trace is a prefix of the reference trace; complete iff ENDED
        if times is not None:
            full = [(t, i) for i, t in enumerate(times)]
            tr = o["trace"]
            if name == "S5init":
                pass
            elif tr != full[:len(tr)]:
                bad.append(("I4-trace-not-a-prefix", tr))
            elif state == ("ENDED", "ENDED") and name != "S8" and (
                    tr != full or o["clock"] != end):
                bad.append(("I4-ended-incomplete", tr, o["clock"]))
        # I5 no lost command
        if name in ("S3", "S3f", "S4", "S6") and outs[-1] == "ok" and \
                state != ("ENDED", "ENDED"):
            bad.append(("I5-accepted-start-never-ran", state,
                        tuple(t for t, _ in o["trace"])))
        if name == "S1" and outs[2] == "ok" and state not in (
                ("STOPPED", "STARTED"), ("ENDED", "ENDED")):
            bad.append(("I5-accepted-stop-but-not-stopped", state))
        # a stop that was accepted before any event ran cannot be followed by
        # the complete run
        if name == "S1" and outs[2] == "ok" and \
                state == ("ENDED", "ENDED"):
            names = [x[0] for x in o["stream"]]
            if "STOPPING" in names and "EXEC" in names and \
                    names.index("STOPPING") < names.index("EXEC"):
                bad.append(("I5-stop-accepted-before-the-first-event-was-lost",
                            state))
        if name == "S9" and (outs != ("ok", "ok", "DSOLError")
                             or state != ("STOPPED", "STARTED")
                             or o["clock"] != 1.5
                             or o["trace"] != [(1.0, 0)]):
            bad.append(("I1-start-while-running-not-refused", outs, state,
                        o["clock"]))
        if name == "S10" and outs[2] == "ok" and outs[3] == "DSOLError":
            # the accepted end_replication() holds although the initialize()
            # that followed was refused: at most the event in progress runs
            if state != ("ENDED", "ENDED") or \
                    len(o["trace"]) > o.get("n_at", 0) + 1:
                bad.append(("I5-end_replication-lost-after-refused-"
                            "initialize", state, len(o["trace"]),
                            o.get("n_at")))
        if name == "S8" and state != ("ENDED", "ENDED"):
            bad.append(("I5-end_replication-did-not-end", state))
        if name == "S2" and state != ("ENDED", "ENDED"):
            bad.append(("I5-end_replication-did-not-end", state))
        if name == "S5cleanup" and state != ("NOT_INITIALIZED",
                                             "NOT_INITIALIZED"):
            bad.append(("I5-cleanup-did-not-take-effect", state))
        # I6 ended or cleaned-up => run thread finished
        if state in (("ENDED", "ENDED"), ("NOT_INITIALIZED",
                                          "NOT_INITIALIZED")) and \
                o["live_threads"] != 0:
            bad.append(("I6-run-thread-alive", o["live_threads"]))
        ac = o["after_cleanup"]
        if (ac["run"], ac["rep"]) != ("NOT_INITIALIZED", "NOT_INITIALIZED") \
                or ac["live_threads"] != 0:
            bad.append(("I6-after-cleanup", (ac["run"], ac["rep"],
                                             ac["live_threads"])))
        return key, bad
    return judge


def b_worker(task):
    name, bound, root, budget = task
    coopsched.install()
    fn = SCEN[name][0]
    judge = judge_b(name)
    with common.quiet_stdio():
        n, outcomes, viols, left, maxpts = coopsched.explore_subtree(
            fn, root, bound, budget, judge)
    return dict(name=name, n=n, outcomes={repr(k): v for k, v
                                          in outcomes.items()},
                viols=[(list(p), repr(k), b) for p, k, b in viols[:300]],
                nviol=len(viols), left=left, maxpts=maxpts)


def explore_b(ctx, name, bound, cap):
    """parallel preemption-bounded DFS: split into subtrees"""
    queue = [()]
    total = 0
    outcomes = {}
    viol_sigs = {}
    maxpts = 0
    budget_each = 150
    while queue and total < cap:
        batch = queue[:common.NCPU * 4]
        queue = queue[len(batch):]
        tasks = [(name, bound, list(root), budget_each) for root in batch]
        for r in common.pimap(b_worker, tasks):
            total += r["n"]
            maxpts = max(maxpts, r["maxpts"])
            for k, v in r["outcomes"].items():
                outcomes[k] = outcomes.get(k, 0) + v
            queue.extend(tuple(x) for x in r["left"])
            for prefix, key, bad in r["viols"]:
                for b in bad:
                    # signature: scenario + invariant + (monitor rule | final
                    # states); data such as traces stay in the witness
                    if b[0] == "I3-stream":
                        detail = b[1]
                    else:
                        detail = key.split("), (")[1].split(")")[0] \
                            if "), (" in key else ""
                    sig = "C04b:%s:%s:%s:%s" % (name, b[0], detail, b[-1])
                    e = viol_sigs.setdefault(sig, [0, prefix, key, b])
                    e[0] += 1
                    if len(prefix) < len(e[1]):
                        e[1], e[2], e[3] = prefix, key, b
    capped = bool(queue)
    top = sorted(outcomes.items(), key=lambda kv: -kv[1])[:3]
    ctx.sample({"C04b_scenario": name, "preemption_bound": bound,
                "executions": total,
                "most_frequent_outcomes(outcomes,states,clock,trace,threads)":
                [[k[:160], v] for k, v in top]}, limit=12)
    for sig, (cnt, prefix, key, b) in viol_sigs.items():
        ctx.violation(sig, "scenario %s, schedule %s (%d preemption bound): "
                      "%s; outcome %s" % (name, prefix, bound, b, key),
                      {"part": "b", "scenario": name, "prefix": prefix,
                       "bound": bound}, rank=len(prefix), count=cnt)
    ctx.part("C04b %s" % name, preemption_bound=bound, executions=total,
             distinct_outcomes=len(outcomes), max_choice_points=maxpts,
             violating_signatures=len(viol_sigs), complete=not capped)
    if capped:
        ctx.cap("C04b %s bound %d: execution cap %d hit, %d subtrees left"
                % (name, bound, cap, len(queue)))
    return total, len(outcomes)


def selfcheck_replay():
    """one recorded schedule replayed twice must give identical observations;
    a divergence is a harness error, never a violation"""
    coopsched.install()
    judge = judge_b("S1")
    with common.quiet_stdio():
        r0 = coopsched.run_one(scen_S1, (), trace=True)
        succ = coopsched.successors(r0.points, 0, 1)
        if not succ:
            raise common.HarnessError("no choice points in S1")
        p = succ[len(succ) // 2]
        a = coopsched.run_one(scen_S1, p, trace=True)
        b = coopsched.run_one(scen_S1, p, trace=True)
    ka, _ = judge(a)
    kb, _ = judge(b)
    if ka != kb or [x[:4] for x in a.points] != [x[:4] for x in b.points]:
        raise common.HarnessError("replay of schedule %s diverged" % (p,))


def burst_worker(task):
    """start / pause / resume on replications with k simultaneous events or
    a chain of k zero-delay events: the run ends by itself in (ENDED, ENDED)
    having executed every event, a pause holds, nothing else stops it"""
    from vlib import progmc
    from checks import c03 as _c03
    clock, k = task
    coopsched.install()
    n = 0
    viols = []
    for name, prog, end in progmc.burst_programs(k):
        if name not in ("batch", "chain", "ladder"):
            continue
        segs = [[], [("pause_at", 0)], [("pause_at", k // 2)],
                [("pause_at", k - 1)], [("step",)] * min(k, 3)]
        for seg in segs:
            pieces = list(seg) + [("start",), ("start",)]
            n += 1
            bad, _ = _c03.judge(prog, clock, pieces, end=end)
            bad = [b for b in bad if b[0] in ("state", "outcome", "trace",
                                              "clock", "composition",
                                              "escaped-exception")]
            for b in bad[:1]:
                viols.append(("C04:burst:%s:%s" % (name, b[0]),
                              "%s of %d events, %s clock, commands %s: %s" % (
                                  name, k, clock, pieces, str(b)[:300]),
                              {"part": "burst", "clock": clock, "k": k}))
    return n, viols


def run(ctx):
    quick = ctx.tier == "quick"
    coopsched.install()
    selfcheck_replay()
    # ---------------- C04a
    seen, trans, viols, maxd = bfs_a(6 if quick else 9)
    for sig, h, b in viols:
        ctx.violation(sig, "commands %s: %s" % ([fmt(x) for x in h], b),
                      {"part": "a", "hist": [list(x) for x in h]},
                      rank=len(h))
    ctx.part("C04a BFS at quiescence", states=len(seen), transitions=trans,
             commands=len(alphabet()), maxdepth=maxd,
             violating_transitions=len(viols))
    deepest = max(seen.values(), key=len)
    ctx.sample({"C04a_history": [fmt(x) for x in deepest]})
    depth = 4 if quick else 5
    nraw = 0
    tasks = [((c, None), depth) for c in PLAIN]
    for n, v in common.pimap(raw_worker, tasks):
        nraw += n
        for sig, seq, b in v:
            ctx.violation(sig, "raw sequence %s: %s" % (
                [fmt(x) for x in seq], b),
                {"part": "a", "hist": [list(x) for x in seq]},
                rank=len(seq))
    ctx.part("C04a raw command sequences (no dedup)", sequences=nraw,
             depth=depth)
    ks = [1, 2, 8, 16, 17, 32, 33, 34, 40] if quick else \
        list(range(1, 49)) + [64, 65]
    nb = 0
    for n_, bv in common.pimap(burst_worker, [(c_, k) for k in reversed(ks)
                                              for c_ in ("float", "int")]):
        nb += n_
        for sig, what, rep in bv:
            ctx.violation(sig, what, rep, rank=rep["k"])
    ctx.part("C04a long replications (k simultaneous / chained events, k in "
             "%s): start, pause, resume, steps" % ks, executions=nb)
    nraw += nb
    # ---------------- C04b
    plan = [("S1", 2), ("S3f", 2), ("S4", 2), ("S5cleanup", 2), ("S5init", 1),
            ("S6", 1), ("S8", 1), ("S9", 1), ("S10", 1), ("S2", 1)] if quick else \
        [("S1", 2), ("S3f", 2), ("S3", 2), ("S4", 2), ("S5cleanup", 2),
         ("S5init", 2), ("S6", 2), ("S8", 2), ("S9", 1), ("S10", 2), ("S2", 2), ("S1", 3), ("S8", 3),
         ("S5cleanup", 3)]
    # (S9 stays at one preemption: with two, the driver can be held inside
    # the wait loop of its first command while virtual time jumps a whole
    # second past the handler's timed wait -- an artefact of the coarse
    # virtual clock, not a behaviour of the library)
    nexec = 0
    nout = 0
    for name, bound in plan:
        t, k = explore_b(ctx, name, bound, 60000 if quick else 1500000)
        nexec += t
        nout += k
    ctx.coverage.update(
        states=len(seen), transitions=trans + nraw,
        traces_validated_against_impl=trans + nraw + nexec,
        schedules_explored=nexec, distinct_schedule_outcomes=nout,
        explanation="C04a: reference protocol states (phase, clock, executed "
        "trace, warm-up fired, live run threads) explored by BFS; every "
        "transition re-executes the whole command history on a fresh real "
        "simulator under the cooperative scheduler (sequential mode, "
        "scheduler-decided quiescence) and compares outcome, states, clock, "
        "trace, live run threads with the acceptable alternatives, checks "
        "that a refused command notified nobody, and runs the stream monitor "
        "on every replication; %d commands incl. commands issued from "
        "handlers/listeners at 8 locations. C04b: scenarios %s, every "
        "schedule with at most the stated number of preemptions at "
        "source-line granularity of simulator.py, invariants I1-I6 at "
        "scheduler-decided quiescence." % (len(alphabet()),
                                           [p[0] for p in plan]))
    ctx.assumptions += [
        "scheduling granularity: source lines of simulator.py plus blocking "
        "and sleeping operations; a runnable run thread is never starved for "
        "a full second (library time-outs fire only when nothing else can "
        "move)",
        "cells marked '?' (end_replication before the first start, bound "
        "before the clock / beyond the end, commands during STOPPING) accept "
        "both 'refused without change' and 'takes effect'",
        "replay determinism self-check at start-up; a divergence is a "
        "harness error"]


def replay(data):
    coopsched.install()
    if data.get("part") == "burst":
        return burst_worker((data["clock"], data["k"]))[1][:3] or None
    if data.get("part") == "b":
        fn = SCEN[data["scenario"]][0]
        judge = judge_b(data["scenario"])
        with common.quiet_stdio():
            r = coopsched.run_one(fn, tuple(data["prefix"]), trace=True)
        k, bad = judge(r)
        return bad or None

    def tup(x):
        return tuple(tup(i) for i in x) if isinstance(x, list) else x
    hist = [tup(x) for x in data["hist"]]
    r = R()
    for i in range(len(hist)):
        bad, r1 = judge_transition(tuple(hist[:i]), hist[i], r)
        if bad:
            return bad
        r = r1
    return None
